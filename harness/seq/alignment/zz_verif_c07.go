package alignment

// C07 — row and column views of column-stored alignments stay consistent under edits.
// C05 — RevComp / Reverse / Clone on column-stored alignments.

import (
	"github.com/biogo/biogo/alphabet"
	"github.com/biogo/biogo/seq"
	"github.com/biogo/biogo/seq/linear"
)

type verifAln interface {
	seq.Aligned
	Len() int
	Row(i int) seq.Sequence
	Delete(i int)
	Add(n ...seq.Sequence) error
	AppendColumns(a ...[]alphabet.QLetter) error
	AppendEach(a [][]alphabet.QLetter) error
	RevComp()
	Reverse()
	Clone() seq.Rower
}

// grid[r][c]
type verifGrid [][]alphabet.QLetter

func (g verifGrid) clone() verifGrid {
	c := make(verifGrid, len(g))
	for i := range g {
		c[i] = append([]alphabet.QLetter(nil), g[i]...)
	}
	return c
}

func (g verifGrid) cols() int {
	if len(g) == 0 {
		return 0
	}
	return len(g[0])
}

func verifQL(name string, comp alphabet.Complementor) alphabet.QLetter {
	l := alphabet.Letter(verifByte(name, 0, 127))
	_, ok := comp.Complement(l)
	verifAssume(ok)
	return alphabet.QLetter{L: l, Q: alphabet.Qphred(verifByte(name+"q", 2, 40))}
}

func verifCheckAln(a verifAln, g verifGrid, qual bool, tag string) {
	verifAssert(a.Rows() == len(g), tag+"-rows")
	verifAssert(a.Len() == g.cols() && a.Start() == 0 && a.End() == g.cols(), tag+"-columns")
	if a.Rows() != len(g) || a.Len() != g.cols() {
		return
	}
	for c := 0; c < g.cols(); c++ {
		col := a.Column(c, true)
		colq := a.ColumnQL(c, true)
		verifAssert(len(col) == len(g) && len(colq) == len(g), tag+"-column-height")
		if len(col) != len(g) || len(colq) != len(g) {
			return
		}
		for r := range g {
			at := a.Row(r).At(c)
			verifAssert(at.L == g[r][c].L, tag+"-row-view-letter")
			verifAssert(col[r] == g[r][c].L, tag+"-column-view-letter")
			verifAssert(colq[r].L == g[r][c].L, tag+"-columnql-view-letter")
			if qual {
				verifAssert(at.Q == g[r][c].Q && colq[r].Q == g[r][c].Q, tag+"-qualities")
			}
		}
	}
}

func verifNewAln(qual bool, g verifGrid, alpha alphabet.Alphabet) verifAln {
	rows, cols := len(g), g.cols()
	ids := make([]string, rows)
	for i := range ids {
		ids[i] = "r" + string(rune('0'+i))
	}
	if qual {
		b := make([][]alphabet.QLetter, cols)
		for c := range b {
			b[c] = make([]alphabet.QLetter, rows)
			for r := range g {
				b[c][r] = g[r][c]
			}
		}
		if cols == 0 {
			s := &QSeq{Annotation: seq.Annotation{ID: "a", Alpha: alpha}, SubAnnotations: make([]seq.Annotation, rows), Threshold: 2, QFilter: seq.AmbigFilter, ColumnConsense: seq.DefaultQConsensus}
			return s
		}
		s, err := NewQSeq("a", ids, b, alpha, alphabet.Sanger, seq.DefaultQConsensus)
		verifAssert(err == nil, "constructor-accepts")
		return s
	}
	b := make([][]alphabet.Letter, cols)
	for c := range b {
		b[c] = make([]alphabet.Letter, rows)
		for r := range g {
			b[c][r] = g[r][c].L
		}
	}
	if cols == 0 {
		return &Seq{Annotation: seq.Annotation{ID: "a", Alpha: alpha}, SubAnnotations: make([]seq.Annotation, rows), ColumnConsense: seq.DefaultConsensus}
	}
	s, err := NewSeq("a", ids, b, alpha, seq.DefaultConsensus)
	verifAssert(err == nil, "constructor-accepts")
	return s
}

// VerifC07_Alignment: symbolic grid, symbolic operation string, reference grid model.
func VerifC07_Alignment() {
	rows, cols, nops := verifParam("rows"), verifParam("cols"), verifParam("ops")
	qual := verifParam("qual") == 1
	alpha := alphabet.DNAgapped
	comp := alpha.(alphabet.Complementor)
	gap := alpha.Gap()
	g := make(verifGrid, rows)
	for r := range g {
		g[r] = make([]alphabet.QLetter, cols)
		for c := range g[r] {
			if m := verifParam("symcells"); m >= 0 && m&(1<<uint(r*cols+c)) == 0 {
				// larger grids: only the cells of the mask are symbolic, the rest a fixed pattern
				g[r][c] = alphabet.QLetter{L: alphabet.Letter("acgt-"[(r*3+c*2)%5]), Q: alphabet.Qphred(10 + (r+c)%30)}
				if !qual {
					g[r][c].Q = seq.DefaultQphred
				}
				continue
			}
			g[r][c] = verifQL("g"+string(rune('0'+r))+string(rune('0'+c)), comp)
			if !qual {
				g[r][c].Q = seq.DefaultQphred
			}
		}
	}
	a := verifNewAln(qual, g, alpha)
	verifCheckAln(a, g, qual, "initial")
	fixQ := func(q alphabet.QLetter) alphabet.QLetter {
		if !qual {
			q.Q = seq.DefaultQphred
		}
		return q
	}
	var other verifAln
	var otherG verifGrid
	for step := 0; step < nops; step++ {
		st := string(rune('0' + step))
		switch verifChoice("op"+st, 7) {
		case 0: // AppendColumns, two columns from caller buffers that are overwritten afterwards
			c1 := make([]alphabet.QLetter, len(g))
			c2 := make([]alphabet.QLetter, len(g))
			for r := range g {
				c1[r] = verifQL("ac"+st+"a"+string(rune('0'+r)), comp)
				c2[r] = verifQL("ac"+st+"b"+string(rune('0'+r)), comp)
			}
			verifAssert(a.AppendColumns(c1, c2) == nil, "appendcolumns-accepts")
			for r := range g {
				g[r] = append(g[r], fixQ(c1[r]), fixQ(c2[r]))
				c1[r], c2[r] = alphabet.QLetter{L: 'n'}, alphabet.QLetter{L: 'n'} // caller reuses its buffers
			}
		case 1: // AppendEach with unequal run lengths
			runs := make([][]alphabet.QLetter, len(g))
			max := 0
			for r := range g {
				n := 1 + (r+step)%2
				if n > max {
					max = n
				}
				for k := 0; k < n; k++ {
					runs[r] = append(runs[r], verifQL("ae"+st+string(rune('0'+r))+string(rune('0'+k)), comp))
				}
			}
			if len(g) == 0 {
				continue
			}
			verifAssert(a.AppendEach(runs) == nil, "appendeach-accepts")
			for r := range g {
				for k := 0; k < max; k++ {
					if k < len(runs[r]) {
						g[r] = append(g[r], fixQ(runs[r][k]))
					} else {
						g[r] = append(g[r], fixQ(alphabet.QLetter{L: gap}))
					}
				}
				for k := range runs[r] {
					runs[r][k] = alphabet.QLetter{L: 'n'}
				}
			}
		case 2: // Delete
			if len(g) < 2 {
				continue // removing the last row leaves the column count undefined
			}
			i := verifChoice("del"+st+"of"+string(rune('0'+len(g))), len(g))
			a.Delete(i)
			g = append(g[:i:i], g[i+1:]...)
		case 3: // Add a row covering the whole alignment
			if g.cols() == 0 || len(g) == 0 {
				continue
			}
			nl := make([]alphabet.QLetter, g.cols())
			ls := make([]alphabet.Letter, g.cols())
			for c := range nl {
				nl[c] = verifQL("add"+st+string(rune('0'+c)), comp)
				ls[c] = nl[c].L
			}
			var row seq.Sequence
			if qual {
				row = linear.NewQSeq("new", nl, alpha, alphabet.Sanger)
			} else {
				row = linear.NewSeq("new", ls, alpha)
			}
			verifAssert(a.Add(row) == nil, "add-accepts")
			nr := make([]alphabet.QLetter, len(nl))
			for c := range nl {
				nr[c] = fixQ(nl[c])
			}
			g = append(g, nr)
		case 4: // Clone, keep the original aside, continue on the copy
			other, otherG = a, g.clone()
			a = a.Clone().(verifAln)
		case 5: // RevComp (C05)
			a.RevComp()
			ng := g.clone()
			n := g.cols()
			for r := range g {
				for c := 0; c < n; c++ {
					l, _ := comp.Complement(g[r][n-1-c].L)
					ng[r][c] = alphabet.QLetter{L: l, Q: g[r][n-1-c].Q}
				}
			}
			g = ng
		case 6: // Reverse (C05)
			a.Reverse()
			ng := g.clone()
			n := g.cols()
			for r := range g {
				for c := 0; c < n; c++ {
					ng[r][c] = g[r][n-1-c]
				}
			}
			g = ng
		}
		verifCheckAln(a, g, qual, "after-op")
		if other != nil {
			verifCheckAln(other, otherG, qual, "clone-is-deep")
		}
	}
	verifObserve("c07", rows, cols, a.Rows(), a.Len())
	verifReach("end")
}

// VerifC07_Consensus: a column in which every row holds the same valid letter has that
// letter, up to case, as its count-based consensus.
func VerifC07_Consensus() {
	rows := verifParam("rows")
	alpha := alphabet.DNAgapped
	l := alphabet.Letter(verifByte("l", 0, 127))
	verifAssume(alpha.IsValid(l))
	col := make([]alphabet.Letter, rows)
	for r := range col {
		col[r] = l
	}
	s, err := NewSeq("a", make([]string, rows), [][]alphabet.Letter{col}, alpha, seq.DefaultConsensus)
	verifAssert(err == nil, "constructor-accepts")
	c := seq.DefaultConsensus(s, alpha, 0, true)
	lower := func(x alphabet.Letter) alphabet.Letter {
		if x >= 'A' && x <= 'Z' {
			return x + 32
		}
		return x
	}
	verifAssert(lower(c.L) == lower(l), "consensus-of-unanimous-column")
	verifObserve("c07c", rows, int(l), int(c.L))
	verifReach("end")
}
