import sys,json,subprocess,os
sys.path.insert(0,'/verif')
import vcheck, checks
pid=sys.argv[1]; tier=sys.argv[2]; sel=[int(x) for x in sys.argv[3].split(',')] if len(sys.argv)>3 else None
orig=checks.CHECKS[pid]['jobs']
if sel is not None:
    checks.CHECKS[pid]['jobs']=lambda t:[j for k,j in enumerate(orig(t)) if k in sel]
import shutil,os
EV='/verif/evidence/%s.json'%pid
EVBAK=open(EV).read() if os.path.exists(EV) else None
rc=vcheck.run_check(pid,tier)
d=json.load(open('/verif/out/gen/%s/result.json'%pid))
for j in d['jobs']:
    print(j['id'],j['params'],'paths',j['paths'],'q',j['queries'],'solver',round(j['solver_s'],1),'wall',round(j['wall_s'],1),'obl',j['obligations'],'reg',j['regions'],j['region_aborts'],'depth',j['max_depth'], j['assert_checks'], j['undecided'])
print('rc',rc)
# debugging runs must not replace the evidence of the registered command
if EVBAK is not None:
    open(EV,'w').write(EVBAK)
elif os.path.exists(EV):
    os.remove(EV)
