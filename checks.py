"""Per-property check definitions: harness instantiations (shapes) per tier."""

CHECKS = {}


def c17_jobs(tier):
    jobs = []
    sl = 2 if tier == "quick" else 4
    for a in range(7):
        jobs.append({"pkgdir": "alphabet", "func": "VerifC17_Builtin", "params": {"alphabet": a, "slice": sl}})
    for cased in (0, 1):
        ns = (1, 2, 3) if cased else (1, 2)
        if tier == "thorough":
            ns = (1, 2, 3, 4) if cased else (1, 2, 3)
        for n in ns:
            jobs.append({"pkgdir": "alphabet", "func": "VerifC17_Constructed", "params": {"n": n, "cased": cased}, "timeout_s": 900 if tier == "quick" else 3000})
    for n in ((1, 2) if tier == "quick" else (1, 2, 3)):
        jobs.append({"pkgdir": "alphabet", "func": "VerifC17_Pairing", "params": {"n": n}})
    return jobs


CHECKS["C17"] = {
    "jobs": c17_jobs,
    "functions": ["alphabet.newAlphabet", "alphabet.NewPairing", "alphabet.NewComplementor", "(*alpha).IsValid/IndexOf/Letter/AllValid/LetterIndex/ValidLetters/Letters",
                  "(*Pairing).Complement/ComplementTable", "strings.ToLower/ToUpper/IndexFunc (executed, not modelled)"],
    "explanation": "bounded symbolic execution of the real alphabet code; the letter is one symbolic byte covering all 256 values in a single query per law",
    "outside": "definition strings longer than 4 letters, pairing strings longer than 3; non-ASCII definitions beyond the concrete samples; NewComplementor on constructed alphabets",
}


def _al(func, which, n, m, **kw):
    p = {"aligner": which, "n": n, "m": m, "k": 2, "qual": 0, "smax": 4, "gmax": 4, "split": 0}
    p.update(kw)
    return {"pkgdir": "align", "func": func, "math": True, "params": p}


def c08_jobs(tier):
    jobs = []
    if tier == "quick":
        lin = {0: [(2, 2), (3, 2), (2, 3), (3, 3)], 1: [(2, 2), (3, 2), (2, 3)], 2: [(2, 2), (3, 2), (2, 3)]}
        aff = [(2, 2), (2, 3)]
    else:
        lin = {0: [(2, 2), (3, 2), (2, 3), (3, 3), (4, 3), (3, 4)], 1: [(2, 2), (3, 2), (2, 3), (3, 3)], 2: [(2, 2), (3, 2), (2, 3), (3, 3)]}
        aff = [(2, 2), (2, 3), (3, 2), (3, 3)]
    for which in (0, 1, 2):
        for (n, m) in lin[which]:
            jobs.append(_al("VerifC08_Optimal", which, n, m))
        jobs.append(_al("VerifC08_Optimal", which, 2, 2, qual=1))
    for which in (3, 4, 5):
        for (n, m) in aff:
            jobs.append(_al("VerifC08_Optimal", which, n, m))
        jobs.append(_al("VerifC08_Optimal", which, 2, 2, qual=1))
    # fixed letters (split=2), symbolic scores: longer sequences, every table stride and border (NW 5x5: 7 s, NWAffine 5x4: 51 s,
    # SWAffine 4x5: 1127 s, FittedAffine 5x4: > 1200 s - measured)
    fixed = [(0, 5, 5, 2), (3, 5, 4, 2)] if tier == "quick" else [(0, 5, 5, 2), (3, 5, 4, 2), (0, 6, 5, 3), (3, 4, 5, 3), (4, 4, 5, 2)]  # SW 5x4: 2065 s, Fitted 5x4: does not finish (measured) - left out
    for (which, n, m, k) in fixed:
        j = _al("VerifC08_Optimal", which, n, m, k=k, split=2)
        j["timeout_s"] = 900 if tier == "quick" else 3000
        jobs.append(j)
    if tier == "thorough":
        jobs.append(_al("VerifC08_Optimal", 0, 3, 3, k=3))
        jobs.append(_al("VerifC08_Optimal", 0, 4, 4, split=1))
    return jobs


def c09_jobs(tier):
    jobs = []
    shapes = [(2, 2), (3, 2), (2, 3)] if tier == "quick" else [(2, 2), (3, 2), (2, 3), (3, 3)]
    for which in range(6):
        # affine aligners: 2x3 is where the layer-blind trace-back first showed without adjacent gaps; 3x3 is the
        # smallest shape with a gap in one sequence directly next to a gap in the other inside the alignment
        sh = shapes if which < 3 else [(2, 2), (3, 2), (2, 3), (3, 3)]
        for (n, m) in sh:
            jobs.append(_al("VerifC09_WellFormed", which, n, m))
        for kind in range(8):
            jobs.append(_al("VerifC09_IllTyped", which, 2, 2, kind=kind))
    # fixed letters (split=2), symbolic scores: longer descriptions (NW 5x5: 11 s, NWAffine 5x4: 90 s - measured)
    for (which, n, m) in ([(0, 5, 5)] if tier == "quick" else [(0, 5, 5), (3, 5, 4), (0, 6, 5)]):
        j = _al("VerifC09_WellFormed", which, n, m, split=2)
        j["timeout_s"] = 900 if tier == "quick" else 3000
        jobs.append(j)
    return jobs


CHECKS["C09"] = {
    "jobs": c09_jobs,
    "functions": ["align.{NW,SW,Fitted,NWAffine,SWAffine,FittedAffine}.Align", "the twelve align*Letters/QLetters kernels", "align.Format", "featPair"],
    "explanation": "same symbolic setting as C08; per trace-back path the pairs are checked for abutment, block/gap shape, bounds, recomputed per-pair score, Letters==QLetters, Format; ill-typed inputs (one arbitrary byte, wrong alphabets/types/matrices) must give errors, not panics",
    "outside": "as C08",
}


CHECKS["C08"] = {
    "jobs": c08_jobs,
    "functions": ["align.{NW,SW,Fitted,NWAffine,SWAffine,FittedAffine}.Align", "the twelve align*Letters/QLetters kernels", "max2/max3/add", "featPair"],
    "explanation": "symbolic letters, fully symbolic scoring matrix; oracle = explicit enumeration of all competing alignments; max-plus DP in SMT Int with overflow obligations",
    "outside": "sequences longer than the stated n x m, alphabets with more than k letters, scores outside [-4,4]",
}


def c20_jobs(tier):
    jobs = []
    # (exons, lowest offset, highest offset, longest exon); a negative lowest offset puts exons before the transcript start
    if tier == "quick":
        shapes = [(1, 0, 8, 4), (2, 0, 8, 4), (3, 0, 8, 4), (1, -2, 3, 2), (2, -2, 4, 3)]
    else:
        shapes = [(1, 0, 20, 6), (2, 0, 20, 6), (3, 0, 20, 6), (4, 0, 20, 6), (5, 0, 12, 3), (6, 0, 14, 2), (1, -3, 3, 2), (2, -3, 6, 3), (3, -2, 6, 3)]
    for (k, minoff, maxoff, maxlen) in shapes:
        jobs.append({"pkgdir": "feat/gene", "func": "VerifC20_Tiling", "math": True,
                     "params": {"k": k, "minoff": minoff, "maxoff": maxoff, "maxlen": maxlen}, "timeout_s": 600 if tier == "quick" else 3000})
    for k in ([1, 2] if tier == "quick" else [1, 2, 3, 4, 5]):
        for spare in ((0, 1, 2) if tier == "quick" else (0, 1, 2, 3)):
            jobs.append({"pkgdir": "feat/gene", "func": "VerifC20_Atomic", "math": True, "params": {"k": k, "spare": spare}})
    jobs.append({"pkgdir": "feat", "func": "VerifC20_OneZero", "params": {}})
    return jobs


CHECKS["C20"] = {
    "jobs": c20_jobs,
    "functions": ["gene.Exons.{Add,Introns,SplicedLen,Start,End,Location,Less,Swap}", "gene.buildExonsFor", "(*CodingTranscript).{SetExons,UTR5,CDS,UTR3,...}", "(*NonCodingTranscript).SetExons", "(*Gene).SetFeatures",
                  "feat.{BasePositionOf,PositionWithin,BaseOrientationOf,OrientationWithin,OneToZero,ZeroToOne}", "sort.Sort (executed)"],
    "explanation": "symbolic exon offsets/lengths in arbitrary order (all sort orders explored), symbolic CDS bounds, offsets and orientations at transcript and gene level; acceptance is compared with an independent specification; capacity histories built with make(Exons,0,k+spare)",
    "outside": "more than 3 (quick) / 6 (thorough) exons, offsets beyond the stated range, nesting deeper than exon/transcript/gene/chromosome, the two extreme int values for 1-/0-based conversion",
}


def c05_jobs(tier):
    jobs = []
    ns = [0, 1, 2, 3, 4, 5] if tier == "quick" else [0, 1, 2, 3, 4, 5, 6, 7, 8]
    for qual in (0, 1):
        for n in ns:
            jobs.append({"pkgdir": "seq/linear", "func": "VerifC05_Linear",
                         "params": {"n": n, "qual": qual, "ops": 0, "involution": 1, "alphabet": (n + qual) % 6}})
        for n in ((2, 3) if tier == "quick" else (2, 3, 4, 5)):
            jobs.append({"pkgdir": "seq/linear", "func": "VerifC05_Linear",
                         "params": {"n": n, "qual": qual, "ops": 2 if tier == "quick" else 3, "involution": 0, "alphabet": 2 if qual else 1}})
    # column-stored and row-stored alignments: RevComp/Reverse/Clone are among the operations of these harnesses
    jobs += _c07_align_jobs(tier) + _c07_multi_jobs(tier)
    return jobs


CHECKS["C05"] = {
    "jobs": c05_jobs,
    "functions": ["linear.(*Seq).{RevComp,Reverse,Clone,Set,At,Start,End}", "linear.(*QSeq).{RevComp,Reverse,Clone,Set,At}", "alignment.(*Seq)/(*QSeq).{RevComp,Reverse,Clone}", "multi.(*Multi).{RevComp,Reverse,Clone}", "alphabet.Pairing.{Complement,ComplementTable}"],
    "explanation": "symbolic letters (any byte the pairing complements), qualities, offset, strand; positional reference model; symbolic operation strings over RevComp/Reverse/Clone-and-switch/Set",
    "outside": "sequences longer than the stated n, operation strings longer than stated",
}


def _c07_align_jobs(tier, func="VerifC07_Alignment"):
    jobs = []
    shapes = [(2, 2, 2), (3, 1, 2), (1, 3, 2)] if tier == "quick" else [(2, 2, 3), (3, 3, 2), (3, 1, 3), (1, 3, 3)]
    for qual in (0, 1):
        for (r, c, o) in shapes:
            jobs.append({"pkgdir": "seq/alignment", "func": func, "params": {"rows": r, "cols": c, "ops": o, "qual": qual, "symcells": -1}})
    # larger grids (rows x columns), mostly fixed letters with the cells of the mask symbolic; symbolic operation string
    for (r, c, o, mask, qual) in ([(3, 5, 2, 0b100000100, 0), (4, 6, 1, 0b1000000000010, 1)] if tier == "quick" else
                                  [(3, 5, 2, 0b100000100, 0), (4, 6, 1, 0b1000000000010, 1), (3, 6, 3, 0b10000, 0), (4, 5, 2, 0b1000001, 1)]):
        jobs.append({"pkgdir": "seq/alignment", "func": func, "params": {"rows": r, "cols": c, "ops": o, "qual": qual, "symcells": mask},
                     "timeout_s": 900 if tier == "quick" else 3000})
    return jobs


def _c07_multi_jobs(tier):
    jobs = []
    shapes = [(2, 2, 1), (2, 1, 2)] if tier == "quick" else [(2, 2, 2), (3, 2, 1), (2, 3, 1), (3, 1, 2)]
    for qual in (0, 1):
        for (r, ml, o) in shapes:
            if tier == "quick" and qual == 1 and o == 2:
                continue
            jobs.append({"pkgdir": "seq/multi", "func": "VerifC07_Multi", "params": {"rows": r, "maxlen": ml, "ops": o, "qual": qual}})
    return jobs


def c07_jobs(tier):
    jobs = _c07_align_jobs(tier) + _c07_multi_jobs(tier)
    for r in (1, 2, 3):
        jobs.append({"pkgdir": "seq/alignment", "func": "VerifC07_Consensus", "params": {"rows": r}})
    return jobs


CHECKS["C07"] = {
    "jobs": c07_jobs,
    "functions": ["alignment.(*Seq).{NewSeq,Add,Delete,AppendColumns,AppendEach,Column,ColumnQL,Row,Clone,RevComp,Reverse}", "alignment.(*QSeq) likewise", "alignment.Row/QRow.At", "seq.DefaultConsensus",
                  "multi.(*Multi).{NewMulti,Add,Delete,Append,AppendColumns,AppendEach,Column,ColumnQL,IsFlush,Flush,Subseq,Truncate,Clone,RevComp,Reverse,Start,End,Len}", "sequtils.Truncate", "linear.(*Seq)/(*QSeq) row methods"],
    "explanation": "symbolic grid of letters/qualities, symbolic operation string (AppendColumns with caller-buffer reuse, AppendEach with unequal runs, Delete, Add, Clone-then-mutate, RevComp, Reverse); after every step row view, column view and reference grid must agree",
    "outside": "grids larger than stated, longer operation strings, container offsets other than 0 for column-stored alignments, DefaultQConsensus (floating point)",
}


def c18_jobs(tier):
    jobs = [{"pkgdir": "alphabet", "func": "VerifC18_Codec", "params": {"encoding": e}} for e in range(6)]
    jobs.append({"pkgdir": "alphabet", "func": "VerifC18_Convert", "params": {}})
    jobs.append({"pkgdir": "alphabet", "func": "VerifC18_Tables", "params": {}, "witnesses": 1})
    return jobs


CHECKS["C18"] = {
    "jobs": c18_jobs,
    "post": "c18_tables",
    "functions": ["alphabet.Encoding.{DecodeToQphred,DecodeToQsolexa}", "alphabet.Qphred.{Encode,ProbE,Qsolexa}", "alphabet.Qsolexa.{Encode,ProbE,Qphred}", "alphabet.{Ephred,Esolexa}",
                  "the four table initialisers (run by the engine on the host FPU)"],
    "explanation": "(1) encode/decode identities for a symbolic score/byte per encoding (bit-vectors); (2) conversion tables mutually inverse from Q=10 (symbolic index into the real tables); (3) every finite table entry checked against its analytic definition in exact real arithmetic (QF_NRA, r=10^(1/20)): correct rounding sandwich for the conversion tables, relative error <= 2^-40 for the probability tables, monotonicity; (4) Ephred(ProbE(q))=q and Esolexa(ProbE(s))=s executed on every table point",
    "outside": "a dense sample of probabilities in (0,1) (floating-point log10 of a symbolic value is out of reach); Qsolexa.Encode under Phred-offset encodings",
}


def c10_jobs(tier):
    jobs = []
    # index: the finger/pos tables are written through symbolic indices; k is lowered through the exported
    # kmerindex.MinKmerLen so that the table has 4^k+1 = 17 or 65 cells (k=4 is reached by VerifC10_ForEach/Bits)
    idx = [(2, 3, 1), (2, 4, 0)] if tier == "quick" else [(2, 3, 1), (2, 4, 0), (2, 4, 1), (2, 5, 0), (3, 4, 0), (3, 5, 0)]
    for (k, n, chk) in idx:
        jobs.append({"pkgdir": "index/kmerindex", "func": "VerifC10_Index", "params": {"k": k, "n": n, "wsplit": 0, "check": chk, "symmask": -1},
                     "timeout_s": 500 if tier == "quick" else 3000})
    # the real word sizes (k >= 4): a fixed scrambled sequence over a,c,g,t,n in both cases with the letters of `mask` symbolic
    for (k, n, chk, mask) in ([(4, 14, 0, 4), (5, 20, 0, 1024), (4, 16, 1, 36)] if tier == "quick" else
                              [(4, 14, 0, 4), (5, 20, 0, 1024), (4, 16, 1, 36), (6, 24, 0, 2048), (4, 18, 1, 16512), (5, 22, 1, 4100)]):
        jobs.append({"pkgdir": "index/kmerindex", "func": "VerifC10_Index", "params": {"k": k, "n": n, "wsplit": 0, "check": chk, "symmask": mask},
                     "timeout_s": 900 if tier == "quick" else 3000})
    for n in ([5, 6] if tier == "quick" else [5, 6, 7, 8]):
        jobs.append({"pkgdir": "index/kmerindex", "func": "VerifC10_ForEach", "params": {"k": 4, "n": n, "symmask": -1}, "timeout_s": 1500})
    for k in ([4, 5, 6, 9] if tier == "quick" else [4, 5, 6, 7, 8, 9, 10, 12]):
        jobs.append({"pkgdir": "index/kmerindex", "func": "VerifC10_Bits", "params": {"k": k, "concretegc": 0}, "floatsplit": True})
    jobs.append({"pkgdir": "index/kmerindex", "func": "VerifC10_Bits", "params": {"k": 2, "concretegc": 1}, "split_cap": 300})
    jobs.append({"pkgdir": "index/kmerindex", "func": "VerifC10_Bits", "params": {"k": 3, "concretegc": 1}, "split_cap": 300})
    return jobs


CHECKS["C10"] = {
    "jobs": c10_jobs,
    "functions": ["kmerindex.{New,buildKmerTable,Build,KmerPositions,FingerAt,ForEachKmerOf,Check,KmerOf,Format,ComplementOf,GCof}", "util.Pow4"],
    "explanation": "letters symbolic over {a,c,g,t,n} x case, symbolic word w, symbolic sub-range; the finger/pos tables are written through symbolic indices; specification computed on the letter string",
    "outside": "all-symbolic index tables for k >= 4 (only sequences with one to three symbolic letters are indexed at k = 4..6) (65k-gate ite/adder networks per query: the build/positions harness runs at k = 2,3 through the exported MinKmerLen; k = 4 is covered for iteration and k = 4..10 for the bit identities), sequences longer than stated, the map-returning conveniences (KmerFrequencies, KmerIndex, StringKmerIndex), GCof as a float of a symbolic count (checked on its integer count; the float division only for k<=3 by case split)",
}


def c06_jobs(tier):
    jobs = []
    P = "seq/sequtils"
    for qual in (0, 1):
        for n in ((0, 2) if tier == "quick" else (0, 1, 2, 3, 4, 5)):
            jobs.append({"pkgdir": P, "func": "VerifC06_Truncate", "params": {"n": n, "qual": qual}})
    for (n, m) in ([(2, 2), (0, 2), (3, 1)] if tier == "quick" else [(2, 2), (0, 2), (3, 1), (4, 3), (2, 0)]):
        jobs.append({"pkgdir": P, "func": "VerifC06_Join", "params": {"n": n, "m": m}})
    for qual in (0, 1):
        for (n, k) in ([(2, 2)] if tier == "quick" else [(2, 2), (3, 2), (4, 2), (2, 3)]):
            jobs.append({"pkgdir": P, "func": "VerifC06_Stitch", "params": {"n": n, "k": k, "qual": qual}})
            if tier == "quick" and qual == 0:
                # three features: nested-then-overlapping layouts need a third interval
                jobs.append({"pkgdir": P, "func": "VerifC06_Stitch", "params": {"n": n, "k": 3, "qual": 0}})
            # Compose with 3 features, or with 4 letters, does not finish within 3000 s (measured)
            if (tier == "thorough" and k == 2 and n <= 3) or (tier == "quick" and qual == 0):
                jobs.append({"pkgdir": P, "func": "VerifC06_Compose", "params": {"n": n, "k": k, "qual": qual}})
    return jobs


CHECKS["C06"] = {
    "jobs": c06_jobs,
    "functions": ["sequtils.{Truncate,Join,Stitch,Compose}", "alphabet.Letters/QLetters slice methods", "linear.(*Seq)/(*QSeq)", "sort.Sort (executed)"],
    "explanation": "symbolic letters/qualities; offsets, ranges and feature geometry case-split by the engine (they determine result shapes) over a window that includes positions before, inside and after the sequence; positional specifications written from the statement; destination/source independence probed by a Set on the result",
    "outside": "Trim (floating-point sums of symbolic error probabilities: not decidable with this engine, not claimed), sequences longer than stated, more than 3 features",
}


def _mor(func, chunk, ns, rec=0, faults=0, **kw):
    p = {"chunk": chunk, "cycles": len(ns), "rec": rec, "faults": faults, "symmask": kw.pop("symmask", -1)}
    for i, n in enumerate(ns):
        p["n%d" % i] = n
    j = {"pkgdir": "morass", "func": func, "params": p, "sched": "det", "fsmodel": True, "max_faults": faults}
    j.update(kw)
    return j


def c11_jobs(tier):
    jobs = []
    if tier == "quick":
        hist = [(1, [2]), (1, [3]), (2, [1]), (2, [3]), (2, [5]), (2, [6]), (2, [1, 3]), (2, [3, 1]), (2, [0, 2]), (3, [4])]
    else:
        hist = [(1, [2]), (1, [3]), (2, [1]), (2, [2]), (2, [3]), (2, [5]), (3, [2]), (3, [4]), (3, [7]),
                (2, [1, 3]), (2, [3, 1]), (2, [0, 2]), (2, [3, 3]), (3, [2, 4]), (2, [1, 3, 1]), (2, [3, 1, 3])]
    for (c, ns) in hist:
        jobs.append(_mor("VerifC11_History", c, ns))
    jobs.append(_mor("VerifC11_History", 2, [3], rec=1))
    # longer cycles over many run files: mostly concrete values, the values selected by the mask symbolic
    for (c, ns, mask) in ([(3, [12], 0b100000010), (4, [14], 0b10000001000)] if tier == "quick" else
                          [(3, [12], 0b100000010), (4, [14], 0b10000001000), (3, [12], 0b100000010010), (4, [14], 0b10000001000001), (2, [16], 0b100000100), (5, [18], 0b100100)]):
        jobs.append(_mor("VerifC11_History", c, ns, symmask=mask))
    if tier == "thorough":
        jobs.append(_mor("VerifC11_History", 2, [1, 3], rec=1))
    return jobs


CHECKS["C11"] = {
    "jobs": c11_jobs,
    "native_rewrite": {"morass/morass.go": "morass"},
    "functions": ["morass.{New,Push,write,Finalise,Pull,Clear,CleanUp,Len,Pos,setErr,err}", "morass.sorter / files heap methods", "sort.Sort, container/heap (executed)",
                  "reflect intrinsics; temp-file/gob layer = engine model (no faults here)"],
    "assumptions": ["temp files and gob are modelled as perfect storage (Decode returns what Encode stored, then io.EOF); native replay runs the real OS and gob through pass-through wrappers"],
    "explanation": "symbolic values (duplicates possible), symbolic drain choice and AutoClear per cycle, per-cycle push counts on both sides of the chunk size; sorted + multiset equality + Len/Pos oracle; sequential mode with the deterministic scheduler (the writer goroutine runs when Push blocks on the pool)",
    "outside": "more cycles / larger counts than stated, concurrent mode (C12), element types other than int and a two-field struct",
}


def c13_jobs(tier):
    jobs = []
    hist = [(1, [2]), (2, [3]), (2, [1])] if tier == "quick" else [(1, [2]), (2, [3]), (2, [1]), (2, [5]), (2, [3, 1]), (2, [1, 3])]
    for (c, ns) in hist:
        jobs.append(_mor("VerifC11_History", c, ns, faults=1))
    for (c, n) in ([(2, 1), (2, 3)] if tier == "quick" else [(2, 1), (2, 3), (1, 2), (3, 7)]):
        jobs.append(_mor("VerifC13_AutoClean", c, [n]))
    # concurrent mode: one fault x every interleaving within the pre-emption bound
    for (c, n, pre) in ([(1, 2, 1), (2, 3, 1), (1, 3, 2)] if tier == "quick" else [(1, 2, 3), (1, 3, 2), (2, 3, 2), (2, 5, 1)]):
        j = _mor("VerifC13_ConcurrentFault", c, [n], faults=1)
        j.update({"sched": "sym", "preempt": pre, "timeout_s": 900 if tier == "quick" else 3000})
        jobs.append(j)
    return jobs


CHECKS["C13"] = {
    "jobs": c13_jobs,
    "native_rewrite": {"morass/morass.go": "morass"},
    "functions": ["morass (as C11)", "engine temp-file/gob model with one symbolic fault per path"],
    "assumptions": ["a failing operation returns an error and has no effect; at most one fault per history; the position of the fault is a solver variable (fault_k for every model operation k)"],
    "explanation": "C11 histories with the fault schedule switched on: if a fault fired, some later Push/Finalise/Pull/Clear returned a non-nil non-EOF error, or the values delivered are exactly the pushed multiset; residue: directory gone after CleanUp and after an AutoClean drain, no run files after an AutoClear drain",
    "outside": "more than one fault, more pre-emptions than stated in concurrent mode, faults in TempDir beyond New's own error return; schedule-dependent counterexamples are reported with the engine's schedule, not replayed natively",
}


def c16_jobs(tier):
    jobs = []
    # three pairs: only the tiny coordinate ranges finish (3,1,2,2 does not within 1200 s; measured)
    shapes = [(2, 1, 4, 3), (2, 2, 3, 2)] if tier == "quick" else [(2, 1, 6, 4), (2, 2, 4, 3), (2, 2, 6, 4), (2, 1, 9, 6), (3, 1, 1, 1), (3, 1, 1, 2), (3, 2, 1, 1), (3, 1, 2, 1)]
    for (p, l, ms, ml) in shapes:
        jobs.append({"pkgdir": "align/pals", "func": "VerifC16_Piles", "math": True,
                     "params": {"pairs": p, "locs": l, "maxstart": ms, "maxlen": ml, "minlen": 1, "concrete": 0}, "timeout_s": 900 if tier == "quick" else 3300})
    # more pairs: the first `concrete` pairs have a fixed layout, the remaining pair is symbolic (insertion order still symbolic)
    for (p, l, ms, ml, conc) in ([(4, 1, 8, 3, 3), (3, 2, 6, 3, 2)] if tier == "quick" else [(4, 1, 8, 3, 3), (3, 2, 6, 3, 2), (5, 2, 9, 3, 4), (4, 2, 8, 4, 3)]):
        jobs.append({"pkgdir": "align/pals", "func": "VerifC16_Piles", "math": True,
                     "params": {"pairs": p, "locs": l, "maxstart": ms, "maxlen": ml, "minlen": 1, "concrete": conc}, "timeout_s": 900 if tier == "quick" else 3300})
    # zero-length features (they abut what they touch, nothing else)
    for (p, l, ms, ml) in ([(2, 1, 4, 2)] if tier == "quick" else [(2, 1, 4, 2), (2, 2, 3, 2)]):
        jobs.append({"pkgdir": "align/pals", "func": "VerifC16_Piles", "math": True,
                     "params": {"pairs": p, "locs": l, "maxstart": ms, "maxlen": ml, "minlen": 0, "concrete": 0}, "timeout_s": 900 if tier == "quick" else 3300})
    return jobs


CHECKS["C16"] = {
    "jobs": c16_jobs,
    "functions": ["pals.{NewPiler,(*Piler).Add,merge,Piles}", "pals.pileInterval.{Overlap,Range,ID}", "pals.Feature/Pair/Pile", "github.com/biogo/store/interval.IntTree (Insert, Delete, DoMatching, Do and the LLRB rotations: executed)"],
    "explanation": "symbolic interval coordinates (nested, abutting, chained, duplicated intervals all inside the range), locations and insertion order case-split; specification = transitive closure of 'same location and overlapping or abutting' computed on symbolic booleans",
    "outside": "more than 3 pairs, coordinates beyond the stated range, overlap slack other than 0, more than 2 locations; map iteration order is insertion order in the engine (the checked facts are order-insensitive)",
}


def c19_jobs(tier):
    jobs = []
    P = "concurrent"
    for ops in ([2, 3] if tier == "quick" else [2, 3, 4]):
        jobs.append({"pkgdir": P, "func": "VerifC19_PromiseSeq", "params": {"ops": ops}, "sched": "det"})
    for (g, mode, pre) in ([(2, 0, 2), (3, 0, 1), (2, 1, 2), (3, 1, 1), (2, 2, 2), (3, 2, 1), (2, 3, 2), (3, 3, 1)] if tier == "quick" else
                           [(2, 0, 3), (3, 0, 2), (4, 0, 1), (2, 1, 3), (3, 1, 2), (4, 1, 1), (2, 2, 3), (3, 2, 2), (4, 2, 1), (2, 3, 3), (3, 3, 2), (4, 3, 1)]):
        jobs.append({"pkgdir": P, "func": "VerifC19_PromiseConc", "params": {"goroutines": g, "mode": mode}, "sched": "sym", "preempt": pre})
    procs = [(1, 0, 0, 0, 1), (1, 0, 2, 0, 2), (2, 0, 1, 0, 2), (2, 1, 2, 0, 1), (2, 0, 3, 1, 1)] if tier == "quick" else \
            [(1, 0, 0, 0, 2), (1, 0, 2, 0, 3), (1, 1, 3, 1, 2), (2, 0, 1, 0, 3), (2, 1, 2, 0, 2), (2, 0, 3, 1, 1), (3, 0, 2, 0, 1), (2, 2, 4, 0, 1)]  # one more pre-emption on the last four: > 3000 s each (measured)
    for (t, b, n, qb, pre) in procs:
        jobs.append({"pkgdir": P, "func": "VerifC19_Processor", "params": {"threads": t, "buffer": b, "nops": n, "qbuf": qb},
                     "sched": "sym", "preempt": pre, "timeout_s": 600 if tier == "quick" else 3000})
    for (t, b, n, pre) in ([(2, 0, 2, 2), (2, 1, 3, 1), (3, 0, 2, 1)] if tier == "quick" else [(2, 0, 2, 3), (2, 1, 3, 2), (3, 0, 3, 2), (3, 1, 2, 2)]):
        jobs.append({"pkgdir": P, "func": "VerifC19_ProcessorStop", "params": {"threads": t, "buffer": b, "nops": n},
                     "sched": "sym", "preempt": pre, "timeout_s": 600 if tier == "quick" else 3000})
    for (t, n, pre) in ([(1, 1, 2), (2, 1, 2), (2, 2, 1)] if tier == "quick" else [(1, 1, 3), (2, 1, 3), (2, 2, 2), (3, 2, 2), (2, 3, 1)]):
        jobs.append({"pkgdir": P, "func": "VerifC19_ProcessorWait", "params": {"threads": t, "nops": n},
                     "sched": "sym", "preempt": pre, "timeout_s": 600 if tier == "quick" else 3000})
    for (n, t, c, pre) in ([(3, 1, 1, 1), (3, 2, 1, 1)] if tier == "quick" else [(3, 1, 1, 2), (3, 2, 1, 2), (4, 2, 2, 2), (4, 2, 1, 1)]):
        jobs.append({"pkgdir": P, "func": "VerifC19_MapFail", "params": {"n": n, "threads": t, "chunk": c}, "sched": "sym", "preempt": pre,
                     "timeout_s": 600 if tier == "quick" else 3000})
    for (n, t, c, pre) in ([(0, 1, 1, 1), (3, 2, 1, 1), (4, 2, 3, 1)] if tier == "quick" else [(0, 1, 1, 2), (3, 2, 1, 2), (4, 2, 3, 2), (4, 1, 2, 2), (2, 2, 3, 2)]):
        jobs.append({"pkgdir": P, "func": "VerifC19_Map", "params": {"n": n, "threads": t, "chunk": c}, "sched": "sym", "preempt": pre,
                     "timeout_s": 600 if tier == "quick" else 3000})
    return jobs


CHECKS["C19"] = {
    "jobs": c19_jobs,
    "functions": ["concurrent.{NewPromise,(*Promise).Fulfill,fulfill,Fail,fail,Wait,messageState}", "concurrent.{NewProcessor and its worker closure,Process,Result,Close,Stop,Wait,Working}", "concurrent.Map and its producer closure",
                  "channels, select, sync.Mutex, sync.WaitGroup, recover: interpreted by the engine's baton scheduler"],
    "level_text": "bounded schedule exploration by symbolic execution: every interleaving of the goroutines' synchronisation steps (channel operations, mutex operations, len(chan), go, goroutine exit) with at most p pre-emptions is explored for the stated workloads; data (values, failure flags, promise flags) are symbolic and decided by z3; deadlock = no runnable goroutine while main is blocked; a panic escaping a goroutine (double close, send on closed channel) is a crash; plain memory accesses (pointer loads/stores, slice elements, append/copy, map operations) are checked by a vector-clock happens-before detector",
    "technique": "bounded symbolic execution of Go SSA with a symbolic scheduler (pre-emption bounded) and a vector-clock happens-before race detector + SMT (z3); schedule dimension case-split by the engine",
    "explanation": "schedule-dependent counterexamples (deadlock, crash, wrong count) are reported with the schedule found; they are not replayed natively (no gate harness was built), only data-dependent witnesses are",
    "assumptions": ["the engine's model of Go channels, select, sync.Mutex and sync.WaitGroup is faithful; scheduling points: before and after channel operations, at mutex operations, len(chan), go statements, goroutine exit", "GOMAXPROCS = 4"],
    "outside": "more goroutines / operations / pre-emptions than stated; unbounded schedules; data races that the detector's extra ordering edges hide (a receive-release is acquired by every later send, atomics order everything); operations that panic followed by further operations",
}


def c12_jobs(tier):
    jobs = []
    shapes = [(1, 2, 2), (1, 3, 1), (2, 3, 2), (2, 5, 1)] if tier == "quick" else [(1, 2, 3), (1, 3, 2), (2, 3, 3), (2, 4, 2), (2, 5, 2), (3, 6, 1), (2, 6, 1)]  # (3,7,1) does not finish in 3000 s (measured)
    for (c, n, pre) in shapes:
        j = _mor("VerifC12_Concurrent", c, [n])
        j.update({"sched": "sym", "preempt": pre, "timeout_s": 600 if tier == "quick" else 3000})
        jobs.append(j)
    return jobs


CHECKS["C12"] = {
    "jobs": c12_jobs,
    "native_rewrite": {"morass/morass.go": "morass"},
    "functions": ["morass.{New,Push,write,Finalise,Pull} in concurrent mode", "engine temp-file/gob model; channels, go, sync.Mutex under the symbolic scheduler"],
    "level_text": CHECKS["C19"]["level_text"],
    "technique": CHECKS["C19"]["technique"],
    "assumptions": ["engine model of channels/mutexes/goroutines; scheduling points also at every model Encode and Sync (the writer's per-element steps)", "temp files and gob modelled as perfect storage"],
    "explanation": "workloads of 1-2 full chunks plus a short or empty last chunk; every interleaving of the caller with the background writers within the pre-emption bound; data symbolic; oracle = complete sorted multiset after Finalise; deadlock and crash detection by the engine. Schedule-dependent counterexamples are not replayed natively",
    "outside": "more chunks / pre-emptions than stated; data races hidden by the detector's extra ordering edges",
}


def c03_jobs(tier):
    jobs = []
    ns = [1, 2, 3] if tier == "quick" else [1, 2, 3, 4, 5, 6, 7]
    for n in ns:
        jobs.append({"pkgdir": "io/seqio/fasta", "func": "VerifC03_Fasta", "params": {"n": n, "nonascii": 0}, "timeout_s": 600 if tier == "quick" else 3000})
        jobs.append({"pkgdir": "io/seqio/fastq", "func": "VerifC03_Fastq", "params": {"n": n, "nonascii": 0}, "timeout_s": 600 if tier == "quick" else 3000})
    for bt in (3, 4, 5, 6, 12):
        for n in ((2, 3) if tier == "quick" else (1, 2, 3, 4, 5, 6)):
            jobs.append({"pkgdir": "io/featio/bed", "func": "VerifC03_Bed", "params": {"n": n, "bedtype": bt}, "timeout_s": 600 if tier == "quick" else 3000})
        jobs.append({"pkgdir": "io/featio/bed", "func": "VerifC03_BedStructured", "params": {"bedtype": bt}, "timeout_s": 900 if tier == "quick" else 3000})
    for n in ((2, 3) if tier == "quick" else (1, 2, 3, 4, 5, 6)):
        jobs.append({"pkgdir": "io/featio/gff", "func": "VerifC03_Gff", "params": {"n": n}, "timeout_s": 600 if tier == "quick" else 3000})
    for meta in (0, 1, 2):
        jobs.append({"pkgdir": "io/featio/gff", "func": "VerifC03_GffStructured", "params": {"meta": meta}, "timeout_s": 900 if tier == "quick" else 3000})
    jobs.append({"pkgdir": "io/seqio/fasta", "func": "VerifC03_Fasta", "params": {"n": 3, "nonascii": 1}})
    jobs.append({"pkgdir": "io/seqio/fastq", "func": "VerifC03_Fastq", "params": {"n": 3, "nonascii": 1}})
    for (sl, ql, crlf) in ([(1, 1, 0), (1, 2, 0), (2, 1, 0), (2, 3, 1), (0, 1, 0)] if tier == "quick" else
                           [(1, 1, 0), (1, 2, 0), (2, 1, 0), (2, 3, 1), (0, 1, 0), (2, 2, 1), (3, 2, 0), (1, 3, 0), (3, 3, 0), (1, 0, 0)]):
        jobs.append({"pkgdir": "io/seqio/fastq", "func": "VerifC03_FastqStructured", "params": {"seqlen": sl, "quallen": ql, "crlf": crlf},
                     "timeout_s": 900 if tier == "quick" else 3000})
    return jobs


CHECKS["C03"] = {
    "jobs": c03_jobs,
    "functions": ["fasta.(*Reader).Read/header", "fastq.(*Reader).Read/readHeader", "bed.(*Reader).Read, parseBed3..12, mustAto*", "gff.(*Reader).Read/commentMetaline/metaSeq, mustAto*, splitAnnot", "feat.OneToZero",
                  "bufio.(*Reader).ReadLine/ReadSlice/ReadBytes/fill, bytes.TrimSpace/HasPrefix/Fields/Join/Split/SplitN/IndexAny, strconv.ParseInt/ParseUint (executed); strconv.ParseFloat on concrete bytes; time.Parse stubbed"],
    "explanation": "(A) arbitrary buffer: every input byte symbolic, Read called until an error: no panic, record-or-error, error within lines+2 calls; (B) structured: a valid BED/GFF line with symbolic text holes and one symbolic mutation (delete/duplicate/empty a column, numeric boundary values, truncation at every offset, incomplete metadata lines): as A, plus structurally invalid lines must yield an error",
    "outside": "arbitrary inputs longer than stated (FASTA/FASTQ <= 7, BED/GFF <= 6 bytes in the thorough tier; 3 in the quick tier), more than one mutation per line, non-ASCII beyond one position",
}


def _fa(func, recs, name=1, desc=0, maxwidth=3, small=0, alphabet=0, **kw):
    p = {"records": len(recs), "name": name, "desc": desc, "maxwidth": maxwidth, "small": small, "alphabet": alphabet}
    for i, n in enumerate(recs):
        p["len%d" % i] = n
    j = {"pkgdir": "io/seqio/fasta", "func": func, "params": p}
    j.update(kw)
    return j


def c01_jobs(tier):
    jobs = []
    if tier == "quick":
        shapes = [([0], 1, 0, 2), ([3], 2, 2, 4), ([2, 3], 1, 1, 3), ([], 1, 0, 1), ([0, 2], 1, 0, 2), ([1, 0], 1, 1, 2)]
    else:
        shapes = [([0], 1, 0, 2), ([3], 2, 2, 4), ([2, 3], 1, 1, 3), ([], 1, 0, 1), ([5], 1, 0, 6), ([4, 0, 2], 1, 2, 3), ([8], 2, 3, 9),
                  ([12], 2, 3, 13), ([6, 5, 4], 2, 2, 5), ([3, 3, 3, 3], 1, 1, 2), ([10, 1], 3, 4, 4),
                  ([40], 2, 3, 41), ([7, 9, 11], 3, 5, 12), ([25, 0, 25], 1, 0, 26)]
    for k, (recs, nm, ds, mw) in enumerate(shapes):
        jobs.append(_fa("VerifC01_Fasta", recs, nm, ds, mw, alphabet=k % 3))
    jobs.append(_fa("VerifC01_Fasta", [20], 1, 0, 21, small=1))
    for enc in range(5):
        recs = [[2], [3], [1, 2], [0], [2]][enc] if tier == "quick" else [[2, 3, 1], [16], [1, 2, 4], [0, 4, 9], [8, 8]][enc]
        p = {"records": len(recs), "name": 1 + enc % 2, "desc": (enc * 2) % 3, "encoding": enc}
        for i, n in enumerate(recs):
            p["len%d" % i] = n
        jobs.append({"pkgdir": "io/seqio/fastq", "func": "VerifC01_Fastq", "params": p})
    return jobs


CHECKS["C01"] = {
    "jobs": c01_jobs,
    "functions": ["fasta.(*Writer).Write", "fasta.(*Reader).Read/header", "linear.Seq", "bufio, bytes (executed)"],
    "explanation": "symbolic names, descriptions, letters; line width case-split; records written by the real writer and read back by the real reader",
    "outside": "",
}


def c04_jobs(tier):
    jobs = []
    shapes = [([3], 1, 1, 3), ([2, 2], 1, 0, 2)] if tier == "quick" else [([3], 1, 1, 3), ([2, 2], 1, 0, 2), ([5], 2, 2, 4), ([3, 0, 2], 1, 1, 3)]
    for (recs, nm, ds, mw) in shapes:
        jobs.append(_fa("VerifC04_Fasta", recs, nm, ds, mw))
    jobs.append(_fa("VerifC04_Fasta", [18], 1, 0, 3))
    jobs.append(_fa("VerifC04_Fasta", [16], 1, 0, 2))  # a physical line that exactly fills the 16-byte buffer
    for bt in ((3, 6) if tier == "quick" else (3, 4, 5, 6, 12)):
        jobs.append({"pkgdir": "io/featio/bed", "func": "VerifC04_Bed", "params": {"bedtype": bt, "records": 2}})
    jobs.append({"pkgdir": "io/featio/gff", "func": "VerifC04_Gff", "params": {"records": 2}})
    for (blank, ft) in ((1, 1), (0, 0), (1, 0)):
        jobs.append({"pkgdir": "io/featio/gff", "func": "VerifC04_GffMeta", "params": {"blank": blank, "feature": ft}})
    for recs in ([[2], [1, 2]] if tier == "quick" else [[2], [1, 2], [4], [2, 0, 3]]):
        p = {"records": len(recs), "name": 1, "desc": 1}
        for i, n in enumerate(recs):
            p["len%d" % i] = n
        jobs.append({"pkgdir": "io/seqio/fastq", "func": "VerifC04_Fastq", "params": p})
    return jobs


CHECKS["C04"] = {
    "jobs": c04_jobs,
    "functions": ["fasta.(*Reader).Read", "fasta.(*Writer).Write (generator)"],
    "explanation": "relational check: canonical text from the real writer vs a layout-transformed text (re-wrap, blank line, trailing blanks, CRLF, missing final newline, one long physical line through a 16-byte bufio buffer); both parsed by the real reader; record lists must be equal",
    "outside": "",
}


FMT_MODELS = {"fmt.Fprintf": "github.com/biogo/biogo/zz_verifmodel.Fprintf", "fmt.Fprint": "github.com/biogo/biogo/zz_verifmodel.Fprint",
              "fmt.Sprintf": "github.com/biogo/biogo/zz_verifmodel.Sprintf", "fmt.Sprint": "github.com/biogo/biogo/zz_verifmodel.Sprint"}


def c02_jobs(tier):
    jobs = []
    widths = [3, 4, 5, 6, 12]
    nwide = {3: 2, 4: 2, 5: 3, 6: 3, 12: 10}

    def bed(n, m, wide):
        return {"pkgdir": "io/featio/bed", "func": "VerifC02_Bed", "models": FMT_MODELS,
                "params": {"n": n, "m": m, "wide": wide, "textlen": 1 if tier == "quick" else 2, "blocks": 1 if tier == "quick" else 2},
                "timeout_s": 900 if tier == "quick" else 3000}
    for n in widths:
        for m in widths:
            if m > n:
                continue
            if tier == "quick":
                if m == n:
                    jobs.append(bed(n, m, (n + 1) % nwide[m]))
                elif m == 3 or (n == 12 and m == 6):
                    jobs.append(bed(n, m, 0))
            else:
                for wide in range(nwide[m]):
                    jobs.append(bed(n, m, wide))
    if tier == "quick":
        for wide in (3, 6, 8):
            jobs.append(bed(12, 12, wide))
    combos = [(0, 0, 0, 1, 0), (1, 2, 3, 0, 1), (2, 1, 5, 1, 1), (2, 0, 6, 0, 0)] if tier == "quick" else \
             [(w, a, sc, h, c) for w in (0, 1, 2) for a in (0, 1, 2, 3) for (sc, h, c) in ((0, 1, 0), (3, 0, 1), (5, 1, 1), (6, 0, 0), (1, 0, 0), (2, 1, 0), (4, 0, 1))]
    for (wide, attrs, score, header, comment) in combos:
        jobs.append({"pkgdir": "io/featio/gff", "func": "VerifC02_Gff", "models": FMT_MODELS,
                     "params": {"wide": wide, "attrs": attrs, "score": score, "header": header, "comment": comment, "textlen": 1 if tier == "quick" else 2,
                                "maxneg": 9 if tier == "quick" else 99, "maxpos": 99 if tier == "quick" else 999},
                     "timeout_s": 900 if tier == "quick" else 3000})
    jobs.append({"pkgdir": "io/featio/gff", "func": "VerifC02_GffRegion", "models": FMT_MODELS, "params": {"textlen": 1, "len": 4}})
    return jobs


CHECKS["C02"] = {
    "jobs": c02_jobs,
    "extra_patterns": ["./zz_verifmodel"],
    "functions": ["bed.(*Writer).Write, bed.format (through reflect intrinsics), parseBed3..12, mustAto*", "strconv.ParseInt/ParseUint (executed)", "fmt = Go model package zz_verifmodel (subset printer, interpreted symbolically)"],
    "assumptions": ["fmt.{Fprintf,Fprint,Sprintf,Sprint} are replaced by the model in /verif/models/zz_verifmodel (verbs %s %d %v %c, '*' width, '.*' precision, Formatter/Stringer/error operands); natively the real fmt runs, and every witness is replayed natively"],
    "explanation": "symbolic coordinates/scores in [-99,999], strands, text bytes, colour, blocks; written by the real writer (through the fmt model) and parsed by the real reader; field-by-field equality; a BED-n record written at width m reads back as its first m columns",
    "outside": "coordinates beyond +-999 in the round trip, text fields longer than stated, arbitrary float scores",
}


def c14_jobs(tier):
    jobs = []
    # (k, n, e, offset, |T|, |Q|, self). The first three are the smallest shapes on which the three
    # defects repaired in /repo (known_findings.txt, fixed: C14) were found by this check.
    shapes = [(1, 1, 0, 2, 2, 3, 0), (1, 2, 1, 3, 2, 5, 0), (3, 3, 0, 1, 4, 5, 0), (1, 2, 1, 1, 3, 4, 1), (1, 1, 0, 1, 2, 4, 0), (1, 2, 1, 2, 2, 4, 0), (1, 2, 1, 1, 2, 4, 0),
              (2, 3, 0, 2, 3, 5, 0), (2, 3, 0, 1, 4, 4, 0), (2, 3, 0, 1, 4, 4, 1)]
    if tier != "quick":
        shapes += [(1, 2, 0, 2, 3, 4, 0), (1, 3, 1, 2, 3, 5, 0), (1, 2, 1, 2, 3, 5, 1), (1, 3, 2, 2, 3, 5, 0),
                   (2, 3, 0, 2, 5, 4, 0), (2, 2, 0, 3, 3, 5, 0)]  # (2,4,1,1,5,5) does not finish in 3000 s (measured)
    for (k, n, e, off, tl, ql, self) in shapes:
        j = {"pkgdir": "align/pals/filter", "func": "VerifC14_Filter", "sched": "det", "fsmodel": True,
             "params": {"k": k, "n": n, "e": e, "offset": off, "tlen": tl, "qlen": ql, "self": self}, "timeout_s": 900 if tier == "quick" else 3000}
        jobs.append(j)
    # template instances: sequences of 12-30 letters, so that the tube-recycling tick fires several times and the
    # circular tube list wraps; target = fixed template prefix (concrete, so the k-mer index is concrete), query =
    # template from `shift` on with the positions of the bit mask `qsym` symbolic:
    # (k, n, e, offset, |T|, |Q|, shift, tsym, qsym)
    tpl = [(4, 9, 1, 4, 24, 20, 3, 4096, 260), (4, 8, 0, 2, 24, 26, 3, 0, 33825), (4, 9, 1, 3, 28, 30, 0, 0, 1081344), (3, 7, 1, 2, 20, 24, 1, 0, 4228),
           (4, 12, 2, 4, 30, 28, 1, 0, 139264), (3, 6, 1, 3, 18, 30, 0, 0, 536870976), (4, 8, 0, 1, 16, 20, 2, 0, 1057), (2, 5, 1, 2, 12, 20, 0, 0, 66)]
    if tier != "quick":
        tpl += [(4, 8, 0, 4, 24, 20, 3, 0, 2080), (4, 9, 1, 5, 20, 24, 0, 0, 65), (3, 7, 1, 3, 20, 18, 1, 0, 1028), (4, 10, 1, 6, 28, 22, 4, 0, 33),
                (3, 6, 1, 2, 16, 14, 2, 72, 1040), (4, 8, 1, 2, 26, 28, 2, 0, 2228259), (3, 5, 0, 1, 14, 26, 0, 0, 33686018)]
    for (k, n, e, off, tl, ql, shift, tsym, qsym) in tpl:
        jobs.append({"pkgdir": "align/pals/filter", "func": "VerifC14_Template", "sched": "det", "fsmodel": True,
                     "params": {"k": k, "n": n, "e": e, "offset": off, "tlen": tl, "qlen": ql, "shift": shift, "tsym": tsym, "qsym": qsym, "cut": 99, "shift2": 0, "tpl": 0},
                     "timeout_s": 900 if tier == "quick" else 3000})
    # low-complexity templates (homopolymer runs, short periods): matches on many diagonals at once, many live tubes
    # (k, n, e, offset, |T|, |Q|, shift, qsym, template)
    low = [(4, 8, 1, 2, 8, 16, 4, 1040, 1), (4, 8, 1, 2, 12, 24, 1, 2064, 1), (2, 4, 1, 3, 5, 9, 10, 34, 2), (3, 6, 1, 4, 8, 14, 0, 130, 2),
           (3, 6, 1, 2, 10, 20, 1, 258, 3), (2, 4, 1, 2, 8, 18, 0, 66, 3), (4, 8, 1, 2, 16, 30, 0, 16448, 1)]
    if tier != "quick":
        low += [(3, 6, 2, 3, 12, 26, 2, 4112, 1), (4, 8, 0, 3, 14, 28, 0, 260, 3), (3, 5, 1, 2, 9, 22, 3, 1028, 2), (2, 5, 1, 4, 10, 24, 0, 8256, 1)]
    for (k, n, e, off, tl, ql, shift, qsym, t) in low:
        jobs.append({"pkgdir": "align/pals/filter", "func": "VerifC14_Template", "sched": "det", "fsmodel": True,
                     "params": {"k": k, "n": n, "e": e, "offset": off, "tlen": tl, "qlen": ql, "shift": shift, "tsym": 0, "qsym": qsym, "cut": 99, "shift2": 0, "tpl": t},
                     "timeout_s": 900 if tier == "quick" else 3000})
    return jobs


def c15_jobs(tier):
    jobs = []
    # unit: dp.Aligner.AlignTraps with one trapezoid covering the whole comparison: (|T|, |Q|, minimum hit length, minimum identity %, k)
    # integers as SMT Int with overflow obligations ("math"): the max-plus DP is 10x faster than as 64-bit bit-vectors (4x4: 20 s vs 196 s)
    units = [(4, 4, 3, 50, 2), (4, 4, 2, 75, 2), (3, 2, 2, 75, 1), (2, 3, 2, 60, 1), (4, 5, 3, 50, 2), (5, 4, 4, 75, 2)]
    if tier != "quick":
        units += [(5, 5, 3, 60, 2), (5, 5, 2, 80, 2), (6, 6, 3, 60, 2), (6, 5, 4, 70, 2), (3, 3, 2, 50, 1)]
    for (t, q, ml, mi, k) in units:
        jobs.append({"pkgdir": "align/pals/dp", "func": "VerifC15_AlignTraps", "sched": "det", "floatsplit": True, "math": True,
                     "params": {"tlen": t, "qlen": q, "minlen": ml, "minid": mi, "k": k}, "timeout_s": 900 if tier == "quick" else 3000})
    # whole pipeline with explicit parameters: (|T|, |Q|, k, n, e, offset, minimum hit length, minimum identity %)
    # gapped hits: fixed template target, query = template with a deletion or an insertion, one or two symbolic query letters:
    # (|T|, del, ins, position, symbolic-position mask, minimum hit length, minimum identity %, k)
    gapped = [(9, 1, 0, 4, 4, 4, 60, 2), (9, 1, 0, 4, 64, 6, 60, 2), (8, 0, 1, 4, 4, 9, 60, 2), (8, 0, 1, 4, 2, 8, 60, 2)]
    if tier != "quick":
        gapped += [(10, 1, 0, 5, 20, 5, 60, 2), (12, 2, 0, 6, 8, 6, 60, 2)]
    for (t, dl, ins, pos, mask, ml, mi, k) in gapped:
        jobs.append({"pkgdir": "align/pals/dp", "func": "VerifC15_Gapped", "sched": "det", "floatsplit": True, "math": True,
                     "params": {"tlen": t, "del": dl, "ins": ins, "delpos": pos, "sym": mask, "minlen": ml, "minid": mi, "k": k},
                     "timeout_s": 900 if tier == "quick" else 3000})
    # two trapezoids whose hits share a start point (common block X, substitutions, common block Y, non-matching flanks):
    # (|X|, |Y|, substitutions, flank, trapezoid order, symbolic-position mask of the query, minimum hit length, minimum identity %, k)
    two = [(10, 3, 1, 3, 0, 16, 4, 70, 2), (10, 3, 1, 3, 1, 16, 4, 70, 2), (12, 4, 2, 3, 1, 64, 5, 70, 2), (10, 2, 1, 3, 1, 32, 4, 70, 2)]
    if tier != "quick":
        two += [(12, 3, 1, 3, 1, 4096, 4, 70, 2)]
    for (xl, yl, subs, fl, order, mask, ml, mi, k) in two:
        jobs.append({"pkgdir": "align/pals/dp", "func": "VerifC15_TwoTraps", "sched": "det", "floatsplit": True, "math": True,
                     "params": {"xlen": xl, "ylen": yl, "subs": subs, "flank": fl, "order": order, "sym": mask, "minlen": ml, "minid": mi, "k": k},
                     "timeout_s": 900 if tier == "quick" else 3000})
    # whole pipeline: the query carries a copy of target[tpos:tpos+plen] at qpos (fewer free letters; the free-query 4x4 instance needs > 900 s)
    pipes = [(4, 4, 2, 3, 0, 1, 3, 60, 3, 1, 0)] if tier == "quick" else [(4, 4, 2, 3, 0, 1, 3, 60, 3, 1, 0), (5, 5, 2, 4, 0, 2, 4, 75, 4, 0, 1), (4, 4, 2, 3, 0, 1, 3, 60, 0, 0, 0)]
    for (t, q, k, n, e, off, ml, mi, plen, tpos, qpos) in pipes:
        jobs.append({"pkgdir": "align/pals", "func": "VerifC15_Pipeline", "sched": "det", "fsmodel": True, "floatsplit": True,  # bit-vector mode: the k-mer index uses shifts and masks
                     "params": {"tlen": t, "qlen": q, "k": k, "n": n, "e": e, "offset": off, "minlen": ml, "minid": mi, "plen": plen, "tpos": tpos, "qpos": qpos, "recall": 0},
                     "timeout_s": 900 if tier == "quick" else 3000})
    return jobs


CHECKS["C15"] = {
    "jobs": c15_jobs,
    "functions": ["dp.{NewAligner,(*Aligner).AlignTraps}, dp.kernel.{alignRecursion,traceForward,traceReverse,allocateVectors}, dp.Hits sorting", "pals.{New,(*PALS).BuildIndex,Align}, filter.{Filter,NewMerger,MergeFilterHit,FinaliseMerge}, kmerindex, morass (in-memory)",
                  "float64 arithmetic of the identity test executed on concrete values: every int-to-float conversion case-splits its symbolic integer operand (exact, no float theory)"],
    "explanation": "FIRST HALF of the property only (hits are real alignments): both sequences symbolic over {a,c,g,t}; every hit returned must lie inside both sequences, be at least the minimum hit length on both, report an error within 1-minId, and a score not above the optimal global alignment score (match +1, mismatch/indel -3; Needleman-Wunsch over the symbolic letters in the harness) of the two hit regions. (A) the banded aligner alone on one trapezoid covering the whole comparison, (B) the whole pipeline with explicit filter and DP parameters.",
    "level_note": "trusted: gosym's Go SSA semantics (validated each run by native replay of solver witnesses), z3 4.8.12 (sampled queries re-decided by z3 5.1 and cvc5), the harness's Needleman-Wunsch. The claim is limited to the listed shapes; with all letters symbolic (up to 6x6) gapped hits cannot occur (a gap costs 3, a match earns 1), they are exercised only by the template instances with one or two symbolic letters, so the check has limited power against changes that only matter at scale; the second half of the property (planted repeats are recovered, complement strand, self comparison) is NOT covered: it speaks about random flanking sequence and kb-scale inputs.",
    "outside": "the recall half of the property (planted repeats, complement-strand search, trivial self match); all-symbolic sequences longer than 6; gapped hits beyond the listed template instances (one or two symbolic letters); PALS.Optimise (parameters are given explicitly)",
}


CHECKS["C14"] = {
    "jobs": c14_jobs,
    "functions": ["filter.{New,(*Filter).Filter,commonKmer,hitTube,tubeEnd,tubeFlush,addHit,diagIndex,tubeIndex,MinWordsPerFilterHit}", "kmerindex (as C10)", "morass in-memory path"],
    "explanation": "tiny bounds: both sequences symbolic over {a,c,g,t}; every pair of length-n windows with at most e substitutions must be covered by a reported hit (query interval overlaps, diagonal band contains the match diagonal, read as the consumer MergeFilterHit reads it)",
    "level_note": "trusted: gosym's Go SSA semantics (validated each run by native replay of solver witnesses), z3 4.8.12 (sampled queries re-decided by z3 5.1 and cvc5), the harness's brute-force list of epsilon-matches and its reading of a hit's diagonal band (as Merger.MergeFilterHit reads it); the claim covers only the listed concrete shapes with symbolic letters",
    "outside": "every shape (k, n, e, offset, |T|, |Q|) other than the listed ones: the shapes are concrete, only the letters are symbolic; k <= 3, |T| <= 5, |Q| <= 5; complement-strand mode",
}
