// Copyright 2013 The Go Authors. All rights reserved.
// Use of this source code is governed by a BSD-style
// license that can be found in the LICENSE file.

package interp

// Emulated "reflect" package.
//
// We completely replace the built-in "reflect" package.
// The only thing clients can depend upon are that reflect.Type is an
// interface and reflect.Value is an (opaque) struct.

import (
	"fmt"
	"go/token"
	"go/types"
	"reflect"
	"sync"
	"unsafe"

	"golang.org/x/tools/go/ssa"
)

type opaqueType struct {
	types.Type
	name string
}

func (t *opaqueType) String() string { return t.name }

// A bogus "reflect" type-checker package.  Shared across interpreters.
var reflectTypesPackage = types.NewPackage("reflect", "reflect")

// rtype is the concrete type the interpreter uses to implement the
// reflect.Type interface.
//
// type rtype <opaque>
var rtypeType = makeNamedType("rtype", &opaqueType{nil, "rtype"})

// error is an (interpreted) named type whose underlying type is string.
// The interpreter uses it for all implementations of the built-in error
// interface that it creates.
// We put it in the "reflect" package for expedience.
//
// type error string
var errorType = makeNamedType("error", &opaqueType{nil, "error"})

func makeNamedType(name string, underlying types.Type) *types.Named {
	obj := types.NewTypeName(token.NoPos, reflectTypesPackage, name, nil)
	return types.NewNamed(obj, underlying, nil)
}

func makeReflectValue(t types.Type, v value) value {
	return structure{rtype{t}, v}
}

// Given a reflect.Value, returns its rtype.
func rV2T(v value) rtype {
	return v.(structure)[0].(rtype)
}

// Given a reflect.Value, returns the underlying interpreter value.
func rV2V(v value) value {
	x := v.(structure)[1]
	if a, ok := x.(rvAddr); ok {
		return load(a.t, a.p)
	}
	return x
}

// rvAddr is the payload of an addressable reflect.Value (obtained through Elem/Indirect of a pointer).
type rvAddr struct {
	p *value
	t types.Type
}

// makeReflectType boxes up an rtype in a reflect.Type interface.
func makeReflectType(rt rtype) value {
	return iface{rtypeType, rt}
}

func ext۰reflect۰rtype۰Bits(fr *frame, args []value) value {
	// Signature: func (t reflect.rtype) int
	rt := args[0].(rtype).t
	basic, ok := rt.Underlying().(*types.Basic)
	if !ok {
		panic(fmt.Sprintf("reflect.Type.Bits(%T): non-basic type", rt))
	}
	return int(fr.i.sizes.Sizeof(basic)) * 8
}

func ext۰reflect۰rtype۰Elem(fr *frame, args []value) value {
	// Signature: func (t reflect.rtype) reflect.Type
	return makeReflectType(rtype{args[0].(rtype).t.Underlying().(interface {
		Elem() types.Type
	}).Elem()})
}

func ext۰reflect۰rtype۰Field(fr *frame, args []value) value {
	// Signature: func (t reflect.rtype, i int) reflect.StructField
	st := args[0].(rtype).t.Underlying().(*types.Struct)
	i := args[1].(int)
	f := st.Field(i)
	return structure{
		f.Name(),
		f.Pkg().Path(),
		makeReflectType(rtype{f.Type()}),
		st.Tag(i),
		0,         // TODO(adonovan): offset
		[]value{}, // TODO(adonovan): indices
		f.Anonymous(),
	}
}

func ext۰reflect۰rtype۰In(fr *frame, args []value) value {
	// Signature: func (t reflect.rtype, i int) int
	i := args[1].(int)
	return makeReflectType(rtype{args[0].(rtype).t.(*types.Signature).Params().At(i).Type()})
}

func ext۰reflect۰rtype۰Kind(fr *frame, args []value) value {
	// Signature: func (t reflect.rtype) uint
	return uint(reflectKind(args[0].(rtype).t))
}

func ext۰reflect۰rtype۰NumField(fr *frame, args []value) value {
	// Signature: func (t reflect.rtype) int
	return args[0].(rtype).t.Underlying().(*types.Struct).NumFields()
}

func ext۰reflect۰rtype۰NumIn(fr *frame, args []value) value {
	// Signature: func (t reflect.rtype) int
	return args[0].(rtype).t.Underlying().(*types.Signature).Params().Len()
}

func ext۰reflect۰rtype۰NumMethod(fr *frame, args []value) value {
	// Signature: func (t reflect.rtype) int
	return fr.i.prog.MethodSets.MethodSet(args[0].(rtype).t).Len()
}

func ext۰reflect۰rtype۰NumOut(fr *frame, args []value) value {
	// Signature: func (t reflect.rtype) int
	return args[0].(rtype).t.Underlying().(*types.Signature).Results().Len()
}

func ext۰reflect۰rtype۰Out(fr *frame, args []value) value {
	// Signature: func (t reflect.rtype, i int) int
	i := args[1].(int)
	return makeReflectType(rtype{args[0].(rtype).t.Underlying().(*types.Signature).Results().At(i).Type()})
}

func ext۰reflect۰rtype۰Size(fr *frame, args []value) value {
	// Signature: func (t reflect.rtype) uintptr
	return uintptr(fr.i.sizes.Sizeof(args[0].(rtype).t))
}

func ext۰reflect۰rtype۰String(fr *frame, args []value) value {
	// Signature: func (t reflect.rtype) string
	return types.TypeString(args[0].(rtype).t, func(p *types.Package) string { return p.Name() })
}

func ext۰reflect۰New(fr *frame, args []value) value {
	// Signature: func (t reflect.Type) reflect.Value
	t := args[0].(iface).v.(rtype).t
	alloc := zero(t)
	return makeReflectValue(types.NewPointer(t), &alloc)
}

func ext۰reflect۰SliceOf(fr *frame, args []value) value {
	// Signature: func (t reflect.rtype) Type
	return makeReflectType(rtype{types.NewSlice(args[0].(iface).v.(rtype).t)})
}

func ext۰reflect۰TypeOf(fr *frame, args []value) value {
	// Signature: func (t reflect.rtype) Type
	return makeReflectType(rtype{args[0].(iface).t})
}

func ext۰reflect۰ValueOf(fr *frame, args []value) value {
	// Signature: func (interface{}) reflect.Value
	itf := args[0].(iface)
	return makeReflectValue(itf.t, itf.v)
}

func ext۰reflect۰Zero(fr *frame, args []value) value {
	// Signature: func (t reflect.Type) reflect.Value
	t := args[0].(iface).v.(rtype).t
	return makeReflectValue(t, zero(t))
}

func reflectKind(t types.Type) reflect.Kind {
	switch t := t.(type) {
	case *types.Named, *types.Alias:
		return reflectKind(t.Underlying())
	case *types.Basic:
		switch t.Kind() {
		case types.Bool:
			return reflect.Bool
		case types.Int:
			return reflect.Int
		case types.Int8:
			return reflect.Int8
		case types.Int16:
			return reflect.Int16
		case types.Int32:
			return reflect.Int32
		case types.Int64:
			return reflect.Int64
		case types.Uint:
			return reflect.Uint
		case types.Uint8:
			return reflect.Uint8
		case types.Uint16:
			return reflect.Uint16
		case types.Uint32:
			return reflect.Uint32
		case types.Uint64:
			return reflect.Uint64
		case types.Uintptr:
			return reflect.Uintptr
		case types.Float32:
			return reflect.Float32
		case types.Float64:
			return reflect.Float64
		case types.Complex64:
			return reflect.Complex64
		case types.Complex128:
			return reflect.Complex128
		case types.String:
			return reflect.String
		case types.UnsafePointer:
			return reflect.UnsafePointer
		}
	case *types.Array:
		return reflect.Array
	case *types.Chan:
		return reflect.Chan
	case *types.Signature:
		return reflect.Func
	case *types.Interface:
		return reflect.Interface
	case *types.Map:
		return reflect.Map
	case *types.Pointer:
		return reflect.Ptr
	case *types.Slice:
		return reflect.Slice
	case *types.Struct:
		return reflect.Struct
	}
	panic(fmt.Sprint("unexpected type: ", t))
}

func ext۰reflect۰Value۰Kind(fr *frame, args []value) value {
	// Signature: func (reflect.Value) uint
	return uint(reflectKind(rV2T(args[0]).t))
}

func ext۰reflect۰Value۰String(fr *frame, args []value) value {
	// Signature: func (reflect.Value) string
	switch v := rV2V(args[0]).(type) {
	case string, symstr, opaqueStr:
		return v
	case rvAddr:
		switch s := (*v.p).(type) {
		case string, symstr, opaqueStr:
			return s
		}
	}
	if b, ok := rV2T(args[0]).t.Underlying().(*types.Basic); ok && b.Info()&types.IsString != 0 {
		panic(unsupported("reflect.Value.String of an unexpected string representation"))
	}
	return "<" + types.TypeString(rV2T(args[0]).t, func(p *types.Package) string { return p.Name() }) + " Value>"
}

func ext۰reflect۰Value۰Type(fr *frame, args []value) value {
	// Signature: func (reflect.Value) reflect.Type
	return makeReflectType(rV2T(args[0]))
}

func ext۰reflect۰Value۰Uint(fr *frame, args []value) value {
	// Signature: func (reflect.Value) uint64
	switch v := rV2V(args[0]).(type) {
	case sv:
		return fr.i.symConvInt(fr, v, types.Uint64)
	case uint:
		return uint64(v)
	case uint8:
		return uint64(v)
	case uint16:
		return uint64(v)
	case uint32:
		return uint64(v)
	case uint64:
		return uint64(v)
	case uintptr:
		return uint64(v)
	}
	panic("reflect.Value.Uint")
}

func ext۰reflect۰Value۰Len(fr *frame, args []value) value {
	// Signature: func (reflect.Value) int
	switch v := rV2V(args[0]).(type) {
	case string:
		return len(v)
	case array:
		return len(v)
	case *ichan:
		return len(v.buf)
	case []value:
		return len(v)
	case symstr:
		return len(v)
	case *omap:
		return v.len()
	default:
		panic(fmt.Sprintf("reflect.(Value).Len(%v)", v))
	}
}

func ext۰reflect۰Value۰MapIndex(fr *frame, args []value) value {
	// Signature: func (reflect.Value) Value
	tValue := rV2T(args[0]).t.Underlying().(*types.Map).Key()
	k := rV2V(args[1])
	switch m := rV2V(args[0]).(type) {
	case *omap:
		if j := m.find(fr, k); j >= 0 {
			return makeReflectValue(tValue, m.vals[j])
		}

	default:
		panic(fmt.Sprintf("(reflect.Value).MapIndex(%T, %T)", m, k))
	}
	return makeReflectValue(nil, nil)
}

func ext۰reflect۰Value۰MapKeys(fr *frame, args []value) value {
	// Signature: func (reflect.Value) []Value
	var keys []value
	tKey := rV2T(args[0]).t.Underlying().(*types.Map).Key()
	switch v := rV2V(args[0]).(type) {
	case *omap:
		if v != nil {
			for j := range v.keys {
				if v.live[j] {
					keys = append(keys, makeReflectValue(tKey, v.keys[j]))
				}
			}
		}

	default:
		panic(fmt.Sprintf("(reflect.Value).MapKeys(%T)", v))
	}
	return keys
}

func ext۰reflect۰Value۰NumField(fr *frame, args []value) value {
	// Signature: func (reflect.Value) int
	return len(rV2V(args[0]).(structure))
}

func ext۰reflect۰Value۰NumMethod(fr *frame, args []value) value {
	// Signature: func (reflect.Value) int
	return fr.i.prog.MethodSets.MethodSet(rV2T(args[0]).t).Len()
}

func ext۰reflect۰Value۰Pointer(fr *frame, args []value) value {
	// Signature: func (v reflect.Value) uintptr
	switch v := rV2V(args[0]).(type) {
	case *value:
		return uintptr(unsafe.Pointer(v))
	case *ichan:
		return uintptr(unsafe.Pointer(v))
	case []value:
		return reflect.ValueOf(v).Pointer()
	case *omap:
		return uintptr(unsafe.Pointer(v))
	case *ssa.Function:
		return uintptr(unsafe.Pointer(v))
	case *closure:
		return uintptr(unsafe.Pointer(v))
	default:
		panic(fmt.Sprintf("reflect.(Value).Pointer(%T)", v))
	}
}

func ext۰reflect۰Value۰Index(fr *frame, args []value) value {
	// Signature: func (v reflect.Value, i int) Value
	i := args[1].(int)
	t := rV2T(args[0]).t.Underlying()
	switch v := rV2V(args[0]).(type) {
	case array:
		return makeReflectValue(t.(*types.Array).Elem(), v[i])
	case []value:
		return makeReflectValue(t.(*types.Slice).Elem(), v[i])
	default:
		panic(fmt.Sprintf("reflect.(Value).Index(%T)", v))
	}
}

func ext۰reflect۰Value۰Bool(fr *frame, args []value) value {
	// Signature: func (reflect.Value) bool
	return rV2V(args[0]).(bool)
}

func ext۰reflect۰Value۰CanAddr(fr *frame, args []value) value {
	// Signature: func (v reflect.Value) bool
	// Always false for our representation.
	return false
}

func ext۰reflect۰Value۰CanInterface(fr *frame, args []value) value {
	// Signature: func (v reflect.Value) bool
	// Always true for our representation.
	return true
}

func ext۰reflect۰Value۰Elem(fr *frame, args []value) value {
	// Signature: func (v reflect.Value) reflect.Value
	switch x := rV2V(args[0]).(type) {
	case iface:
		return makeReflectValue(x.t, x.v)
	case *value:
		et := rV2T(args[0]).t.Underlying().(*types.Pointer).Elem()
		if x == nil {
			return makeReflectValue(et, nil)
		}
		return makeReflectValue(et, rvAddr{x, et})
	default:
		panic(fmt.Sprintf("reflect.(Value).Elem(%T)", x))
	}
}

func ext۰reflect۰Value۰Field(fr *frame, args []value) value {
	// Signature: func (v reflect.Value, i int) reflect.Value
	v := args[0]
	i := args[1].(int)
	return makeReflectValue(rV2T(v).t.Underlying().(*types.Struct).Field(i).Type(), rV2V(v).(structure)[i])
}

func ext۰reflect۰Value۰Float(fr *frame, args []value) value {
	// Signature: func (reflect.Value) float64
	switch v := rV2V(args[0]).(type) {
	case float32:
		return float64(v)
	case float64:
		return float64(v)
	}
	panic("reflect.Value.Float")
}

func ext۰reflect۰Value۰Interface(fr *frame, args []value) value {
	// Signature: func (v reflect.Value) interface{}
	return ext۰reflect۰valueInterface(fr, args)
}

func ext۰reflect۰Value۰Int(fr *frame, args []value) value {
	// Signature: func (reflect.Value) int64
	switch x := rV2V(args[0]).(type) {
	case sv:
		return fr.i.symConvInt(fr, x, types.Int64)
	case int:
		return int64(x)
	case int8:
		return int64(x)
	case int16:
		return int64(x)
	case int32:
		return int64(x)
	case int64:
		return x
	default:
		panic(fmt.Sprintf("reflect.(Value).Int(%T)", x))
	}
}

func ext۰reflect۰Value۰IsNil(fr *frame, args []value) value {
	// Signature: func (reflect.Value) bool
	switch x := rV2V(args[0]).(type) {
	case *value:
		return x == nil
	case *ichan:
		return x == nil
	case *omap:
		return x == nil
	case iface:
		return x.t == nil
	case []value:
		return x == nil
	case *ssa.Function:
		return x == nil
	case *ssa.Builtin:
		return x == nil
	case *closure:
		return x == nil
	default:
		panic(fmt.Sprintf("reflect.(Value).IsNil(%T)", x))
	}
}

func ext۰reflect۰Value۰IsValid(fr *frame, args []value) value {
	// Signature: func (reflect.Value) bool
	return rV2V(args[0]) != nil
}

func ext۰reflect۰Value۰Set(fr *frame, args []value) value {
	a, ok := args[0].(structure)[1].(rvAddr)
	if !ok {
		panic(runtimeError("reflect: reflect.Value.Set using unaddressable value"))
	}
	if args[1].(structure)[0].(rtype).t == nil {
		panic(runtimeError("reflect: call of reflect.Value.Set on zero Value"))
	}
	store(a.t, a.p, cloneAgg(rV2V(args[1])))
	return nil
}

func ext۰reflect۰Indirect(fr *frame, args []value) value {
	if _, isPtr := rV2T(args[0]).t.Underlying().(*types.Pointer); isPtr {
		return ext۰reflect۰Value۰Elem(fr, args)
	}
	return args[0]
}

func ext۰reflect۰Value۰CanSet(fr *frame, args []value) value {
	_, ok := args[0].(structure)[1].(rvAddr)
	return ok
}

func ext۰reflect۰valueInterface(fr *frame, args []value) value {
	// Signature: func (v reflect.Value, safe bool) interface{}
	v := args[0].(structure)
	return iface{rV2T(v).t, rV2V(v)}
}

func ext۰reflect۰error۰Error(fr *frame, args []value) value {
	return args[0]
}

// newMethod creates a new method of the specified name, package and receiver type.
func newMethod(pkg *ssa.Package, recvType types.Type, name string) *ssa.Function {
	// TODO(adonovan): fix: hack: currently the only part of Signature
	// that is needed is the "pointerness" of Recv.Type, and for
	// now, we'll set it to always be false since we're only
	// concerned with rtype.  Encapsulate this better.
	sig := types.NewSignature(types.NewVar(token.NoPos, nil, "recv", recvType), nil, nil, false)
	fn := pkg.Prog.NewFunction(name, sig, "fake reflect method")
	fn.Pkg = pkg
	return fn
}

type reflectState struct {
	pkg          *ssa.Package
	rtypeMethods methodSet
	errorMethods methodSet
}

var (
	reflectMu     sync.Mutex
	reflectStates = map[*ssa.Program]*reflectState{}
)

func initReflect(i *interpreter) {
	reflectMu.Lock()
	defer reflectMu.Unlock()
	if st, ok := reflectStates[i.prog]; ok {
		i.reflectPackage, i.rtypeMethods, i.errorMethods = st.pkg, st.rtypeMethods, st.errorMethods
		return
	}
	defer func() {
		reflectStates[i.prog] = &reflectState{i.reflectPackage, i.rtypeMethods, i.errorMethods}
	}()
	i.reflectPackage = &ssa.Package{
		Prog:    i.prog,
		Pkg:     reflectTypesPackage,
		Members: make(map[string]ssa.Member),
	}

	// Clobber the type-checker's notion of reflect.Value's
	// underlying type so that it more closely matches the fake one
	// (at least in the number of fields---we lie about the type of
	// the rtype field).
	//
	// We must ensure that calls to (ssa.Value).Type() return the
	// fake type so that correct "shape" is used when allocating
	// variables, making zero values, loading, and storing.
	//
	// TODO(adonovan): obviously this is a hack.  We need a cleaner
	// way to fake the reflect package (almost---DeepEqual is fine).
	// One approach would be not to even load its source code, but
	// provide fake source files.  This would guarantee that no bad
	// information leaks into other packages.
	if r := i.prog.ImportedPackage("reflect"); r != nil {
		rV := r.Pkg.Scope().Lookup("Value").Type().(*types.Named)

		// delete bodies of the old methods
		mset := i.prog.MethodSets.MethodSet(rV)
		for j := 0; j < mset.Len(); j++ {
			i.prog.MethodValue(mset.At(j)).Blocks = nil
		}

		tEface := types.NewInterface(nil, nil).Complete()
		rV.SetUnderlying(types.NewStruct([]*types.Var{
			types.NewField(token.NoPos, r.Pkg, "t", tEface, false), // a lie
			types.NewField(token.NoPos, r.Pkg, "v", tEface, false),
		}, nil))
	}

	i.rtypeMethods = methodSet{
		"Bits":      newMethod(i.reflectPackage, rtypeType, "Bits"),
		"Elem":      newMethod(i.reflectPackage, rtypeType, "Elem"),
		"Field":     newMethod(i.reflectPackage, rtypeType, "Field"),
		"In":        newMethod(i.reflectPackage, rtypeType, "In"),
		"Kind":      newMethod(i.reflectPackage, rtypeType, "Kind"),
		"NumField":  newMethod(i.reflectPackage, rtypeType, "NumField"),
		"NumIn":     newMethod(i.reflectPackage, rtypeType, "NumIn"),
		"NumMethod": newMethod(i.reflectPackage, rtypeType, "NumMethod"),
		"NumOut":    newMethod(i.reflectPackage, rtypeType, "NumOut"),
		"Out":       newMethod(i.reflectPackage, rtypeType, "Out"),
		"Size":      newMethod(i.reflectPackage, rtypeType, "Size"),
		"String":    newMethod(i.reflectPackage, rtypeType, "String"),
	}
	i.errorMethods = methodSet{
		"Error": newMethod(i.reflectPackage, errorType, "Error"),
	}
}
