import sys,json,os
sys.path.insert(0,'/verif')
import vcheck, checks
shapes=json.loads(sys.argv[1])
keys=["k","n","e","offset","tlen","qlen","shift","tsym","qsym","cut","shift2","tpl"]
jobs=[{"pkgdir":"align/pals/filter","func":"VerifC14_Template","sched":"det","fsmodel":True,"params":dict(zip(keys,s)),"timeout_s":1200,"witnesses":2} for s in shapes]
checks.CHECKS["C14T"]={"jobs":lambda t:jobs,"functions":[],"explanation":"","outside":""}
rc=vcheck.run_check("C14T","quick")
d=json.load(open('/verif/out/gen/C14T/result.json'))
for j in d['jobs']:
    print(j['params'],'paths',j['paths'],'done',j['paths_done'],'q',j['queries'],'solver',round(j['solver_s'],1),'wall',round(j['wall_s'],1),j['assert_checks'],[w['Observe'] for w in (j.get('witnesses') or [])][:1],(j['undecided'] or [''])[0][:300])
print('rc',rc)
try: os.remove('/verif/evidence/C14T.json')
except OSError: pass
