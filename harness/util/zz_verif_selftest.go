package util

// Engine self-test: common Go idioms a maintainer might introduce into the code under test,
// run on symbolic inputs. Every function ends with verifObserve of its results, so the native
// replay of each solver witness compares the engine's semantics with the real Go runtime and
// standard library (vcheck reports any difference as an engine/native mismatch).

import (
	"bufio"
	"bytes"
	"errors"
	"fmt"
	"io"
	"math/bits"
	"runtime"
	"sort"
	"strconv"
	"strings"
	"sync"
	"sync/atomic"
	"unicode"
	"unicode/utf8"
)

func verifSymBytes(name string, n int, lo, hi byte) []byte {
	b := make([]byte, n)
	for i := range b {
		b[i] = verifByte(name+string(rune('a'+i)), lo, hi)
	}
	return b
}

// VerifSelf_Builders: strings.Builder, bytes.Buffer, strings.Join/Repeat, byte appends.
func VerifSelf_Builders() {
	b := verifSymBytes("x", 3, 'a', 'd')
	var sb strings.Builder
	for _, c := range b {
		sb.WriteByte(c)
	}
	sb.WriteString("-")
	sb.WriteRune('é')
	var bb bytes.Buffer
	bb.Write(b)
	bb.WriteByte('-')
	bb.WriteString("é")
	verifAssert(sb.String() == bb.String(), "builder-equals-buffer")
	verifAssert(sb.Len() == 6 && bb.Len() == 6, "lengths")
	j := strings.Join([]string{string(b[:1]), string(b[1:])}, "")
	verifAssert(j == string(b), "join-of-split-halves")
	r := strings.Repeat(string(b[:1]), 2)
	verifAssert(len(r) == 2 && r[0] == b[0] && r[1] == b[0], "repeat")
	verifObserve("builders", sb.String(), j, r)
	verifReach("end")
}

// VerifSelf_StringsFuncs: searching, trimming, splitting, case mapping on a symbolic string.
func VerifSelf_StringsFuncs() {
	b := verifSymBytes("s", 4, ' ', 'c') // ' ' .. 'c' includes '!'..'@', 'A'..'Z', 'a'..'c'
	verifAssume(b[0] == ' ' || b[0] == 'a' || b[0] == 'B')
	verifAssume(b[1] == ',' || b[1] == 'a' || b[1] == 'b')
	verifAssume(b[2] == ',' || b[2] == 'a' || b[2] == ' ')
	verifAssume(b[3] == ' ' || b[3] == 'c' || b[3] == 'A')
	s := string(b)
	parts := strings.Split(s, ",")
	n := 1
	for _, c := range b {
		if c == ',' {
			n++
		}
	}
	verifAssert(len(parts) == n, "split-count")
	verifAssert(strings.Join(parts, ",") == s, "split-join-identity")
	t := strings.TrimSpace(s)
	verifAssert(len(t) <= len(s), "trim-shrinks")
	if len(t) > 0 {
		verifAssert(t[0] != ' ' && t[len(t)-1] != ' ', "trim-ends")
	}
	i := strings.IndexByte(s, 'a')
	if i >= 0 {
		verifAssert(s[i] == 'a', "indexbyte-hit")
		for k := 0; k < i; k++ {
			verifAssert(s[k] != 'a', "indexbyte-first")
		}
	}
	verifAssert(strings.Contains(s, "a") == (i >= 0), "contains-iff-index")
	verifAssert(strings.HasPrefix(s, "a") == (b[0] == 'a'), "hasprefix")
	verifAssert(strings.HasSuffix(s, "c") == (b[3] == 'c'), "hassuffix")
	u := strings.ToUpper(s)
	l := strings.ToLower(s)
	verifAssert(len(u) == 4 && len(l) == 4, "case-map-length")
	f := strings.Fields(s)
	verifAssert(len(f) <= 2, "fields-count")
	c := strings.Count(s, "a")
	verifAssert(c >= 0 && c <= 4, "count-range")
	li := strings.LastIndex(s, "a")
	verifAssert((li >= 0) == (i >= 0) && li >= i, "lastindex")
	verifObserve("strfuncs", s, len(parts), t, i, u, l, len(f), c, li, strings.Replace(s, "a", "xy", -1), strings.TrimLeft(s, " a"), strings.TrimSuffix(s, "c"), strings.Map(func(r rune) rune {
		if r == ',' {
			return -1
		}
		return r
	}, s), strings.EqualFold(s, u), strings.Compare(s, l))
	verifReach("end")
}

// VerifSelf_BytesFuncs: the bytes twin of the above.
func VerifSelf_BytesFuncs() {
	b := verifSymBytes("s", 4, 'a', 'c')
	verifAssume(b[1] == 'a' || b[1] == 'b')
	sep := []byte{'b'}
	parts := bytes.Split(b, sep)
	verifAssert(bytes.Equal(bytes.Join(parts, sep), b), "split-join-identity")
	i := bytes.Index(b, []byte("ab"))
	if i >= 0 {
		verifAssert(b[i] == 'a' && b[i+1] == 'b', "index-hit")
	}
	verifAssert(bytes.Contains(b, []byte("ab")) == (i >= 0), "contains-iff-index")
	verifAssert(bytes.HasPrefix(b, []byte("a")) == (b[0] == 'a'), "hasprefix")
	t := bytes.TrimRight(b, "c")
	verifAssert(len(t) == 0 || t[len(t)-1] != 'c', "trimright")
	u := bytes.ToUpper(b)
	verifAssert(len(u) == 4 && u[0] == b[0]-32, "toupper")
	c := bytes.Count(b, []byte("a"))
	verifAssert(bytes.Compare(b, b) == 0 && bytes.Compare(b, u) > 0, "compare")
	f := bytes.Fields(bytes.Replace(b, []byte("b"), []byte(" "), -1))
	verifObserve("bytesfuncs", string(b), len(parts), i, string(t), string(u), c, len(f), bytes.IndexByte(b, 'c'), bytes.LastIndexByte(b, 'a'), string(bytes.TrimSpace(append([]byte(" "), b...))), string(bytes.Repeat(b[:1], 3)), bytes.IndexAny(b, "bc"))
	verifReach("end")
}

// VerifSelf_Strconv: decimal formatting and parsing of symbolic integers.
func VerifSelf_Strconv() {
	v := verifInt("v", -120, 1200)
	s := strconv.Itoa(v)
	w, err := strconv.Atoi(s)
	verifAssert(err == nil && w == v, "itoa-atoi")
	s2 := strconv.FormatInt(int64(v), 10)
	verifAssert(s2 == s, "formatint")
	b := strconv.AppendInt([]byte("x"), int64(v), 10)
	verifAssert(string(b[1:]) == s && b[0] == 'x', "appendint")
	u, err2 := strconv.ParseUint(s, 10, 16)
	verifAssert((err2 == nil) == (v >= 0), "parseuint-sign")
	if err2 == nil {
		verifAssert(int(u) == v, "parseuint-value")
	}
	h := strconv.FormatInt(int64(v), 16)
	x, err3 := strconv.ParseInt(h, 16, 64)
	verifAssert(err3 == nil && int(x) == v, "hex-roundtrip")
	_, err4 := strconv.Atoi(s + "x")
	verifAssert(err4 != nil, "atoi-rejects-trailing")
	q := strconv.Quote(s)
	verifAssert(len(q) == len(s)+2 && q[0] == '"', "quote")
	verifObserve("strconv", v, s, s2, string(b), h, q, strconv.FormatBool(v > 0))
	verifReach("end")
}

type verifPair struct {
	k int
	s string
}

type verifByK []verifPair

func (p verifByK) Len() int           { return len(p) }
func (p verifByK) Less(i, j int) bool { return p[i].k < p[j].k }
func (p verifByK) Swap(i, j int)      { p[i], p[j] = p[j], p[i] }

// VerifSelf_Sort: sort.Ints, sort.Sort, sort.Stable, sort.Slice, sort.SliceStable, sort.Search.
func VerifSelf_Sort() {
	n := verifParam("n")
	xs := make([]int, n)
	ps := make([]verifPair, n)
	for i := range xs {
		xs[i] = verifInt("x"+string(rune('a'+i)), 0, 3)
		ps[i] = verifPair{xs[i], string(rune('a' + i))}
	}
	a := append([]int(nil), xs...)
	sort.Ints(a)
	for i := 1; i < n; i++ {
		verifAssert(a[i-1] <= a[i], "ints-sorted")
	}
	verifAssert(sort.IntsAreSorted(a), "ints-are-sorted")
	p1 := append(verifByK(nil), ps...)
	sort.Stable(p1)
	p2 := append([]verifPair(nil), ps...)
	sort.SliceStable(p2, func(i, j int) bool { return p2[i].k < p2[j].k })
	p3 := append([]verifPair(nil), ps...)
	sort.Slice(p3, func(i, j int) bool { return p3[i].k < p3[j].k })
	p4 := append(verifByK(nil), ps...)
	sort.Sort(p4)
	for i := 0; i < n; i++ {
		verifAssert(p1[i] == p2[i], "stable-agree")
		verifAssert(p1[i].k == a[i] && p3[i].k == a[i] && p4[i].k == a[i], "keys-agree")
		if i > 0 && p1[i-1].k == p1[i].k {
			verifAssert(p1[i-1].s < p1[i].s, "stable-keeps-order")
		}
	}
	t := verifInt("t", 0, 4)
	i := sort.SearchInts(a, t)
	verifAssert(i == n || a[i] >= t, "search-upper")
	verifAssert(i == 0 || a[i-1] < t, "search-lower")
	j := sort.Search(n, func(k int) bool { return a[k] >= t })
	verifAssert(i == j, "search-agree")
	ss := []string{string(rune('a' + xs[0])), "b", string(rune('a' + xs[n-1]))}
	sort.Strings(ss)
	verifAssert(ss[0] <= ss[1] && ss[1] <= ss[2], "strings-sorted")
	verifObserve("sort", fmt.Sprint(a), fmt.Sprint(p1), i, strings.Join(ss, ""))
	verifReach("end")
}

// VerifSelf_Maps: maps with symbolic int and string keys, delete, comma-ok, len.
func VerifSelf_Maps() {
	k1, k2 := verifInt("k1", 0, 2), verifInt("k2", 0, 2)
	m := map[int]int{}
	m[k1] = 10
	m[k2] += 5
	if k1 == k2 {
		verifAssert(len(m) == 1 && m[k1] == 15, "same-key")
	} else {
		verifAssert(len(m) == 2 && m[k1] == 10 && m[k2] == 5, "distinct-keys")
	}
	_, ok := m[3]
	verifAssert(!ok, "absent")
	delete(m, k1)
	_, ok = m[k1]
	verifAssert(!ok, "deleted")
	sm := map[string][]int{}
	b := verifSymBytes("s", 2, 'a', 'b')
	sm[string(b[:1])] = append(sm[string(b[:1])], 1)
	sm[string(b[1:])] = append(sm[string(b[1:])], 2)
	total := 0
	for _, v := range sm {
		total += len(v)
	}
	verifAssert(total == 2, "string-keys-total")
	verifAssert((len(sm) == 1) == (b[0] == b[1]), "string-keys-len")
	type key struct {
		a byte
		b int
	}
	km := map[key]bool{{b[0], k1}: true}
	verifAssert(km[key{b[0], k1}] && !km[key{b[0] + 1, k1}], "struct-keys")
	verifObserve("maps", len(m), len(sm), total)
	verifReach("end")
}

type verifShape interface{ Area() int }
type verifSq struct{ s int }
type verifRect struct{ w, h int }

func (q verifSq) Area() int    { return q.s * q.s }
func (r *verifRect) Area() int { return r.w * r.h }

var verifErrNeg = errors.New("negative")

type verifMyErr struct{ v int }

func (e *verifMyErr) Error() string { return "myerr " + strconv.Itoa(e.v) }

func verifMayFail(v int) (r int, err error) {
	defer func() {
		if p := recover(); p != nil {
			err = fmt.Errorf("recovered: %v", p)
		}
	}()
	if v < 0 {
		return 0, verifErrNeg
	}
	if v == 0 {
		return 0, &verifMyErr{v}
	}
	if v == 1 {
		var a []int
		return a[v], nil // index out of range, recovered
	}
	if v == 2 {
		return 0, fmt.Errorf("wrapped: %w", verifErrNeg)
	}
	return 10 / (v - 2), nil
}

// VerifSelf_Control: interfaces, type switches, closures, defer/recover, errors.Is/As, variadic.
func VerifSelf_Control() {
	v := verifInt("v", -1, 5)
	var sh verifShape
	if v%2 == 0 {
		sh = verifSq{v}
	} else {
		sh = &verifRect{v, 2}
	}
	area := sh.Area()
	switch s := sh.(type) {
	case verifSq:
		verifAssert(area == s.s*s.s, "square")
	case *verifRect:
		verifAssert(area == 2*v, "rect")
	default:
		verifFail("type-switch-default")
	}
	r, err := verifMayFail(v)
	var me *verifMyErr
	switch {
	case v < 0:
		verifAssert(err == verifErrNeg && errors.Is(err, verifErrNeg), "neg")
	case v == 0:
		verifAssert(errors.As(err, &me) && me.v == 0 && err.Error() == "myerr 0", "as")
	case v == 1:
		verifAssert(err != nil && strings.HasPrefix(err.Error(), "recovered: "), "recovered")
	case v == 2:
		verifAssert(errors.Is(err, verifErrNeg) && err != verifErrNeg, "wrapped")
	default:
		verifAssert(err == nil && r == 10/(v-2), "value")
	}
	acc := 0
	add := func(xs ...int) {
		for _, x := range xs {
			acc += x
		}
	}
	add()
	add(v, 1)
	add([]int{2, 3}...)
	verifAssert(acc == v+6, "variadic-closure")
	fs := make([]func() int, 3)
	for i := range fs {
		i := i
		fs[i] = func() int { return i * v }
	}
	verifAssert(fs[2]() == 2*v, "closure-capture")
	var arr [4]int
	arr2 := arr
	arr2[v&3] = 7
	verifAssert(arr[v&3] == 0 && arr2[v&3] == 7, "array-copy")
	em := ""
	if err != nil && v != 1 { // the recovered runtime error names the index, which the engine renders as [sym]
		em = err.Error()
	}
	verifObserve("control", v, area, r, em, acc)
	verifReach("end")
}

// VerifSelf_IO: bufio.Reader/Scanner over bytes.Reader/strings.Reader, io.ReadAll, bufio.Writer.
func VerifSelf_IO() {
	b := verifSymBytes("s", 5, '\n', 'b')
	for i := range b {
		verifAssume(b[i] == '\n' || b[i] == 'a' || b[i] == 'b')
	}
	sc := bufio.NewScanner(bytes.NewReader(b))
	var lines []string
	for sc.Scan() {
		lines = append(lines, sc.Text())
	}
	nl := 0
	for _, c := range b {
		if c == '\n' {
			nl++
		}
	}
	want := nl
	if b[len(b)-1] != '\n' {
		want++
	}
	verifAssert(len(lines) == want, "scanner-line-count")
	rd := bufio.NewReader(strings.NewReader(string(b)))
	first, err := rd.ReadString('\n')
	if nl > 0 {
		verifAssert(err == nil && first[len(first)-1] == '\n', "readstring")
	} else {
		verifAssert(err == io.EOF && first == string(b), "readstring-eof")
	}
	rest, _ := io.ReadAll(rd)
	verifAssert(first+string(rest) == string(b), "readall-rest")
	var out bytes.Buffer
	w := bufio.NewWriter(&out)
	n, _ := w.Write(b)
	fmt.Fprintf(w, "%d:%s", n, "x")
	w.Flush()
	verifAssert(out.String() == string(b)+"5:x", "bufio-writer")
	verifObserve("io", strings.Join(lines, "|"), first, string(rest), out.String())
	verifReach("end")
}

// VerifSelf_Arith: machine integer semantics, shifts, bits, conversions, unicode/utf8.
func VerifSelf_Arith() {
	x := verifInt("x", -300, 300)
	y := verifConcrete(verifInt("y", 1, 9)) // symbolic x symbolic multiplication is out of reach
	q, r := x/y, x%y
	verifAssert(q*y+r == x && (r == 0 || (r < 0) == (x < 0)), "truncated-division")
	i8 := int8(x)
	u8 := uint8(x)
	verifAssert(int(u8) == x&0xff && (int(i8)-x)%256 == 0, "narrowing")
	u := uint32(x) >> 3
	s := int32(x) >> 3
	verifAssert(x < 0 || int(u) == int(s), "shifts-agree-nonneg")
	sh := uint(y)
	verifAssert(1<<sh == int(uint64(1)<<sh), "shift-by-symbolic")
	verifAssert(bits.OnesCount8(u8) == bits.OnesCount16(uint16(u8)), "popcount")
	verifAssert(bits.Len8(u8) <= 8 && (u8 == 0) == (bits.Len8(u8) == 0), "bitlen")
	verifAssert(bits.TrailingZeros8(u8) <= 8 && bits.LeadingZeros8(u8)+bits.Len8(u8) == 8, "zeros")
	c := rune(u8 & 0x7f)
	verifAssert(unicode.IsUpper(c) == (c >= 'A' && c <= 'Z'), "isupper-ascii")
	verifAssert(unicode.ToLower(c) == c || (c >= 'A' && c <= 'Z'), "tolower-ascii")
	verifAssert(unicode.IsDigit(c) == (c >= '0' && c <= '9'), "isdigit-ascii")
	verifAssert(unicode.IsSpace(c) == (c == ' ' || (c >= 9 && c <= 13)), "isspace-ascii")
	var buf [4]byte
	n := utf8.EncodeRune(buf[:], rune(x+300))
	rr, m := utf8.DecodeRune(buf[:n])
	verifAssert(m == n && rr == rune(x+300), "utf8-roundtrip")
	verifAssert(utf8.RuneLen(rune(x+300)) == n, "runelen")
	mn, mx := x, y
	if mn > mx {
		mn, mx = mx, mn
	}
	verifObserve("arith", q, r, int(i8), int(u8), int(u), int(s), n, mn, mx, x^y, x&^y, -x, ^x)
	verifReach("end")
}

type verifStr struct{ v int }

func (s verifStr) String() string { return "S" + strconv.Itoa(s.v) }

type verifInner struct {
	A int
	b string
	C verifStr
	d verifStr
}

// VerifSelf_Fmt: the fmt model (zz_verifmodel) against the real fmt: every observation is
// recomputed by the real fmt in the native replay.
func VerifSelf_Fmt() {
	v := verifInt("v", -12, 120)
	c := verifByte("c", 'a', 'c')
	s := string([]byte{c, 'x'})
	e := errors.New("boom" + s)
	in := verifInner{v, s, verifStr{v}, verifStr{1}}
	o1 := fmt.Sprintf("%d|%5d|%-5d|%05d|%+d|%x|%c|%q", v, v, v, v, v, v&0xff, c, c)
	o2 := fmt.Sprintf("%s|%6s|%-6s|%.1s|%q|%x|%v", s, s, s, s, s, s, []byte(s))
	o3 := fmt.Sprintf("%v|%+v|%v|%v", in, in, &in, []int{v, 1})
	o4 := fmt.Sprint(v, v, s, s, v, e, verifStr{v}, v > 0)
	o5 := fmt.Sprintln("x", v, nil)
	w := fmt.Errorf("ctx %d: %w", v, e)
	o6 := w.Error()
	verifAssert(errors.Is(w, e), "errorf-wraps")
	verifAssert(len(o1) > 0 && o2[0] == c, "shape")
	o7 := fmt.Sprintf("%T|%t|%3c|%*d|%v|%d", in, v > 3, c, 4, v, nil, []int8{int8(v), 2})
	verifObserve("fmt", o1, o2, o3, o4, o5, o6, o7)
	verifReach("end")
}

// ---------------------------------------------------------------------------------------
// happens-before race detector: race-free idioms (must hold) and racy ones (must be reported)

// VerifSelf_RaceFree: every shared access below is ordered by a synchronisation edge.
func VerifSelf_RaceFree() {
	var mu sync.Mutex
	var wg sync.WaitGroup
	var once sync.Once
	counter, inited := 0, 0
	var hits int32
	buf := make([]int, 2)
	handoff := make(chan []int)   // unbuffered hand-off of a buffer
	back := make(chan []int, 1)   // buffered return
	sem := make(chan struct{}, 1) // buffered channel as a lock
	done := make(chan struct{})   // close as broadcast
	shared := 0
	guarded := 0
	for i := 0; i < 2; i++ {
		wg.Add(1)
		go func(i int) {
			defer wg.Done()
			once.Do(func() { inited++ })
			mu.Lock()
			counter++
			mu.Unlock()
			atomic.AddInt32(&hits, 1)
			sem <- struct{}{}
			guarded += inited // inited read after once.Do
			<-sem
			if i == 0 {
				b := <-handoff
				b[0]++ // exclusive: the sender does not touch it until it comes back
				back <- b
			} else {
				<-done
				_ = shared // written before close(done)
			}
		}(i)
	}
	buf[0] = 41
	handoff <- buf
	b := <-back
	verifAssert(b[0] == 42, "handoff-roundtrip")
	shared = 7
	close(done)
	wg.Wait()
	verifAssert(counter == 2 && inited == 1 && atomic.LoadInt32(&hits) == 2 && guarded == 2, "joined-results")
	verifObserve("racefree", counter, inited, guarded, b[0])
	verifReach("end")
}

// VerifSelf_ParallelLoop: a loop split over goroutines and joined by a WaitGroup and by a
// results channel, in a job that does not ask for a scheduler (the default one is used).
func VerifSelf_ParallelLoop() {
	xs := make([]int, 4)
	for i := range xs {
		xs[i] = verifInt("x"+string(rune('a'+i)), 0, 9)
	}
	part := make([]int, 2)
	var wg sync.WaitGroup
	for w := 0; w < 2; w++ {
		wg.Add(1)
		go func(w int) {
			defer wg.Done()
			for _, x := range xs[w*2 : w*2+2] {
				part[w] += x
			}
		}(w)
	}
	wg.Wait()
	res := make(chan int, 2)
	for w := 0; w < 2; w++ {
		go func(w int) { res <- part[w] * 2 }(w)
	}
	total := <-res + <-res
	verifAssert(total == 2*(xs[0]+xs[1]+xs[2]+xs[3]), "parallel-sum")
	verifObserve("parloop", total)
	verifReach("end")
}

// VerifSelf_Atomics: atomic.Value publication, atomic.Int64 methods, CompareAndSwap as a lock.
func VerifSelf_Atomics() {
	var cfg atomic.Value
	var n atomic.Int64
	var flag int32
	payload := 0
	var wg sync.WaitGroup
	wg.Add(2)
	go func() {
		defer wg.Done()
		payload = 7 // published by the Store below
		cfg.Store([]int{1, 2, 3})
		n.Add(2)
	}()
	go func() {
		defer wg.Done()
		if v, ok := cfg.Load().([]int); ok {
			verifAssert(len(v) == 3 && payload == 7, "published-before-store")
		}
		if atomic.CompareAndSwapInt32(&flag, 0, 1) {
			n.Add(1)
			atomic.StoreInt32(&flag, 0)
		}
	}()
	wg.Wait()
	verifAssert(n.Load() == 3, "atomic-counter")
	old := cfg.Swap([]int{9})
	verifAssert(len(old.([]int)) == 3, "swap-returns-old")
	verifObserve("atomics", n.Load(), payload)
	verifReach("end")
}

// VerifSelf_Cond: a one-slot mailbox guarded by sync.Cond; two producers, one consumer.
func VerifSelf_Cond() {
	var mu sync.Mutex
	notEmpty, notFull := sync.NewCond(&mu), sync.NewCond(&mu)
	slot, full := 0, false
	var wg sync.WaitGroup
	for i := 1; i <= 2; i++ {
		wg.Add(1)
		go func(v int) {
			defer wg.Done()
			mu.Lock()
			for full {
				notFull.Wait()
			}
			slot, full = v, true
			mu.Unlock()
			notEmpty.Signal()
		}(i)
	}
	sum := 0
	for k := 0; k < 2; k++ {
		mu.Lock()
		for !full {
			notEmpty.Wait()
		}
		sum += slot
		full = false
		mu.Unlock()
		notFull.Broadcast()
	}
	wg.Wait()
	verifAssert(sum == 3, "both-values-delivered-once")
	verifObserve("cond", sum)
	verifReach("end")
}

// VerifSelf_Racy: mode selects one classic race; each must be reported as a data race.
func VerifSelf_Racy() {
	mode := verifParam("mode")
	var wg sync.WaitGroup
	switch mode {
	case 0: // unprotected counter
		n := 0
		for i := 0; i < 2; i++ {
			wg.Add(1)
			go func() { n++; wg.Done() }()
		}
		wg.Wait()
		_ = n
	case 1: // buffer written after it was handed off
		ch := make(chan []int, 1)
		buf := []int{1, 2}
		wg.Add(1)
		go func() { b := <-ch; _ = b[1]; wg.Done() }()
		ch <- buf
		buf[1] = 9
		wg.Wait()
	case 2: // result read without waiting
		res := 0
		go func() { res = 1 }()
		runtime.Gosched()
		_ = res
	case 3: // map written by two goroutines under different mutexes
		m := map[int]int{}
		var a, b sync.Mutex
		wg.Add(2)
		go func() { a.Lock(); m[1] = 1; a.Unlock(); wg.Done() }()
		go func() { b.Lock(); m[2] = 2; b.Unlock(); wg.Done() }()
		wg.Wait()
	case 4: // append into shared spare capacity from two goroutines
		base := make([]int, 1, 4)
		wg.Add(2)
		go func() { _ = append(base, 1); wg.Done() }()
		go func() { _ = append(base, 2); wg.Done() }()
		wg.Wait()
	case 5: // struct field written by a goroutine, whole struct copied by main
		type pt struct{ x, y int }
		p := &pt{}
		go func() { p.y = 3 }()
		runtime.Gosched()
		q := *p
		_ = q
	}
	verifReach("end")
}
