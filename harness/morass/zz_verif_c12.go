package morass

// C12 — concurrent-mode external sort is schedule independent.

import "io"

// VerifC12_Concurrent: concurrent chunk writing under the symbolic scheduler.
func VerifC12_Concurrent() {
	verifOps, verifFaultHit = 0, false
	chunk, n := verifParam("chunk"), verifParam("n0")
	m, err := New(verifKey(0), "verif", "", chunk, true)
	verifAssert(err == nil, "new-succeeds")
	if err != nil {
		return
	}
	pushed := make([]int, n)
	for i := 0; i < n; i++ {
		pushed[i] = verifInt("k"+string(rune('0'+i)), 0, 2)
		verifAssert(m.Push(verifKey(pushed[i])) == nil, "push-succeeds")
	}
	verifAssert(m.Finalise() == nil, "finalise-succeeds")
	var pulled []int
	for p := 0; p <= n; p++ {
		var x verifKey
		perr := m.Pull(&x)
		if perr == io.EOF {
			break
		}
		verifAssert(perr == nil, "pull-succeeds")
		if perr != nil {
			break
		}
		pulled = append(pulled, int(x))
	}
	verifAssert(len(pulled) == n, "no-value-lost-or-duplicated")
	for i := 0; i+1 < len(pulled); i++ {
		verifAssert(pulled[i] <= pulled[i+1], "pulled-in-non-decreasing-order")
	}
	if len(pulled) == n {
		same := true
		for _, e := range pushed {
			np, nq := 0, 0
			for _, x := range pushed {
				if x == e {
					np++
				}
			}
			for _, x := range pulled {
				if x == e {
					nq++
				}
			}
			if np != nq {
				same = false
			}
		}
		verifAssert(same, "pulled-multiset-equals-pushed-multiset")
	}
	verifSettle()
	m.CleanUp()
	verifObserve("c12", chunk, n, len(pulled))
	verifReach("end")
}

// VerifC13_ConcurrentFault: concurrent mode, one solver-chosen I/O fault, every interleaving
// within the pre-emption bound: the fault is reported by some later call, or the data are complete.
func VerifC13_ConcurrentFault() {
	verifOps, verifFaultHit = 0, false
	chunk, n := verifParam("chunk"), verifParam("n0")
	m, err := New(verifKey(0), "verif", "", chunk, true)
	if err != nil {
		verifReach("end")
		return
	}
	sawError := false
	pushed := make([]int, 0, n)
	for i := 0; i < n && !sawError; i++ {
		v := verifInt("k"+string(rune('0'+i)), 0, 2)
		if m.Push(verifKey(v)) != nil {
			sawError = true
			break
		}
		pushed = append(pushed, v)
	}
	if !sawError && m.Finalise() != nil {
		sawError = true
	}
	var pulled []int
	if !sawError {
		for p := 0; p <= n; p++ {
			var x verifKey
			perr := m.Pull(&x)
			if perr == io.EOF {
				break
			}
			if perr != nil {
				sawError = true
				break
			}
			pulled = append(pulled, int(x))
		}
	}
	if !sawError {
		// success throughout: then exactly the pushed values must have been delivered
		verifAssert(len(pulled) == len(pushed), "success-throughout-delivers-every-value")
		same := len(pulled) == len(pushed)
		for _, e := range pushed {
			np, nq := 0, 0
			for _, x := range pushed {
				if x == e {
					np++
				}
			}
			for _, x := range pulled {
				if x == e {
					nq++
				}
			}
			if np != nq {
				same = false
			}
		}
		verifAssert(same, "success-throughout-delivers-the-pushed-multiset")
	}
	verifSettle()
	m.CleanUp()
	verifObserve("c13c", chunk, n, sawError, len(pulled))
	verifReach("end")
}
