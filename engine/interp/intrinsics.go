package interp

// Intrinsics: the verif* harness API, bytealg, sync, atomic, math, runtime.

import (
	"fmt"
	"go/types"
	"math"
	"strings"
	"unsafe"

	"golang.org/x/tools/go/ssa"

	"verif/engine/smt"
	"verif/engine/sym"
)

type symFloat struct{ opaque string }

// symToFloat: a symbolic integer converted to floating point becomes an opaque float. It can be
// stored, passed, combined arithmetically and returned; any branch or integer conversion on it
// ends the path as unsupported.
func (i *interpreter) symToFloat(fr *frame, x sv, dk types.BasicKind) value {
	return symFloat{"float(" + x.t.String() + ")"}
}

func (i *interpreter) convFloat(fr *frame, x symFloat, t types.Type) value {
	if b, ok := t.Underlying().(*types.Basic); ok && b.Info()&types.IsFloat != 0 {
		return x
	}
	panic(unsupported("conversion of an opaque (symbolic) float to " + t.String()))
}

func goString(v value) string {
	switch s := v.(type) {
	case string:
		return s
	}
	panic(unsupported(fmt.Sprintf("expected concrete string, have %T", v)))
}

// nondet creates (or re-creates) a named symbolic integer in [lo,hi] of kind k.
func (i *interpreter) nondet(fr *frame, name string, lo, hi int64, k types.BasicKind) value {
	e := i.ex
	c := i.ctx
	if lo > hi {
		panic(pathEnd{kind: "assume", msg: "empty nondet range " + name})
	}
	if lo == hi {
		return hostOf(k, uint64(lo))
	}
	var t *sym.Term
	var rng *sym.Term
	// the solver-level name carries the range: the same harness name may be declared with
	// different ranges on different paths (never twice on one path)
	// SMT-LIB quoted symbols may not contain '|' or '\\' (and we keep them printable)
	safe := strings.Map(func(r rune) rune {
		if r == '|' || r == '\\' || r < ' ' || r > '~' {
			return -1
		}
		return r
	}, name)
	if safe != name {
		safe = fmt.Sprintf("%s#%x", safe, name)
	}
	smtName := fmt.Sprintf("%s@%d:%d", safe, lo, hi)
	if k == types.Bool {
		smtName = safe
		t = c.VarBool(smtName)
		rng = c.True
	} else if i.math {
		t = c.VarInt(smtName, lo, hi)
		rng = c.RangeConstraint(t, lo, hi)
	} else {
		w := kindBits(k)
		if lo >= 0 {
			t = c.VarBVRange(smtName, w, uint64(lo), uint64(hi))
			rng = c.RangeConstraint(t, lo, hi)
		} else {
			t = c.VarBV(smtName, w)
			rng = c.RangeConstraint(t, lo, hi)
		}
	}
	if j, dup := e.ndIndex[name]; !dup {
		e.ndIndex[name] = len(e.nondets)
		e.nondets = append(e.nondets, nondetInfo{name: name, smt: smtName, t: t, lo: lo, hi: hi, k: int(k)})
		e.assertHere(rng)
	} else if e.nondets[j].smt != smtName {
		panic(unsupported("nondet " + name + " declared twice on one path with different ranges"))
	}
	return sv{t, k}
}

func (i *interpreter) intrinsic(fr *frame, fn *ssa.Function, name string, args []value) (value, bool) {
	short := fn.Name()
	if short == "unsafeString" && len(args) == 1 {
		// biogo's zero-copy []byte -> string cast through unsafe.Pointer
		if cells, ok := args[0].([]value); ok {
			return normStr(append([]value(nil), cells...)), true
		}
	}
	if strings.HasPrefix(short, "verif") && fn.Signature.Recv() == nil {
		if r, ok := i.verifIntrinsic(fr, short, args); ok {
			return r, true
		}
	}
	if name == "github.com/biogo/biogo/alphabet.Ephred" || name == "github.com/biogo/biogo/alphabet.Esolexa" {
		if _, opaque := args[0].(symFloat); opaque {
			// model: the quality of an opaque probability is an unconstrained score
			i.ex.opaqueQ++
			return i.nondet(fr, fmt.Sprintf("opaque_quality_%d", i.ex.opaqueQ), 0, 255, types.Uint8), true
		}
		return nil, false
	}
	if i.fs != nil {
		if f, ok := fsIntrinsics[name]; ok {
			return f(fr, args), true
		}
	}
	if f, ok := stdIntrinsics[name]; ok {
		return f(fr, args), true
	}
	if f, ok := stdIntrinsicsExtra[name]; ok {
		return f(fr, args), true
	}
	return nil, false
}

func (i *interpreter) verifIntrinsic(fr *frame, short string, args []value) (value, bool) {
	e := i.ex
	c := i.ctx
	switch short {
	case "verifInt":
		return i.nondet(fr, goString(args[0]), asInt64(args[1]), asInt64(args[2]), types.Int), true
	case "verifByte":
		return i.nondet(fr, goString(args[0]), asInt64(args[1]), asInt64(args[2]), types.Uint8), true
	case "verifBool":
		return i.nondet(fr, goString(args[0]), 0, 1, types.Bool), true
	case "verifChoice":
		// always case-split
		n := asInt64(args[1])
		if n <= 0 {
			panic(pathEnd{kind: "assume", msg: "empty choice"})
		}
		v := i.nondet(fr, goString(args[0]), 0, n-1, types.Int)
		return fr.conc(v, "choice "+goString(args[0])), true
	case "verifParam":
		p, ok := i.params[goString(args[0])]
		if !ok {
			panic(unsupported("missing parameter " + goString(args[0])))
		}
		return p, true
	case "verifAssume":
		fr.assume(i.truth(args[0]))
		return nil, true
	case "verifAssert":
		i.checkAssert(fr, i.truth(args[0]), goString(args[1]))
		return nil, true
	case "verifFail":
		i.checkAssert(fr, c.False, goString(args[0]))
		return nil, true
	case "verifReach":
		l := goString(args[0])
		e.reached = append(e.reached, l)
		e.stats.Reached[l]++
		return nil, true
	case "verifKnown":
		id := goString(args[0])
		in := i.truth(args[1])
		if !e.knownIDs[id] {
			return nil, true // not a listed finding: no fence
		}
		if fr.branch(in) {
			e.knownOn = id
		} else if e.knownOn == id {
			e.knownOn = ""
		}
		return nil, true
	case "verifObserve":
		i.observe(fr, goString(args[0]), args[1].([]value))
		return nil, true
	case "verifSettle":
		return fr.settle(), true
	case "verifSymbolic":
		return true, true
	case "verifConcrete":
		// verifConcrete(x int) int: case-split x
		return fr.conc(args[0], "verifConcrete"), true
	}
	if i.fs != nil {
		if f, ok := fsIntrinsics[short]; ok {
			return f(fr, args), true
		}
	}
	return nil, false
}

func (i *interpreter) checkAssert(fr *frame, cond *sym.Term, label string) {
	e := i.ex
	if fr.guard != nil {
		panic(unsupported("assert inside if-converted region"))
	}
	if cond.IsTrue() {
		e.stats.AssertConst[label]++
		return
	}
	if !e.live() {
		return
	}
	e.stats.AssertChecks[label]++
	lvl := e.solver.Level()
	e.solver.Push()
	e.solver.Assert(i.ctx.Not(cond))
	r := e.solver.Check()
	switch r {
	case smt.Unsat:
		e.solver.PopTo(lvl)
		return
	case smt.Unknown:
		e.solver.PopTo(lvl)
		panic(pathEnd{kind: "unknown", msg: "solver unknown on assertion " + label + ": " + e.solver.SawErr})
	}
	m, full, err := e.model()
	e.solver.PopTo(lvl)
	if err != nil {
		panic(pathEnd{kind: "unknown", msg: "model extraction failed: " + err.Error()})
	}
	v := Violation{Label: label, Model: m, Trace: e.decisions(), Observe: e.renderObserve(full), Known: e.knownOn}
	if e.knownOn != "" {
		// fenced (listed known finding): keep at most two witnesses per id and carry on
		// with the path, so that everything after the fence is still checked
		e.stats.KnownHits[e.knownOn]++
		if e.stats.KnownHits[e.knownOn] <= 2 {
			e.violations = append(e.violations, v)
		}
		return
	}
	e.violations = append(e.violations, v)
	e.unknownViol++
	panic(pathEnd{kind: "violation", msg: label})
}

func (i *interpreter) observe(fr *frame, name string, vals []value) {
	e := i.ex
	items := []obsItem{{s: name}}
	var add func(v value)
	add = func(v value) {
		switch v := v.(type) {
		case iface:
			if v.t == nil {
				items = append(items, obsItem{s: "nil"})
				return
			}
			if types.Implements(v.t, errorIface) || types.Implements(types.NewPointer(v.t), errorIface) {
				items = append(items, obsItem{s: "err"})
				return
			}
			add(v.v)
		case sv:
			items = append(items, obsItem{isTerm: true, t: v.t, k: int(v.k)})
		case bool, int, int8, int16, int32, int64, uint, uint8, uint16, uint32, uint64, uintptr:
			items = append(items, obsItem{s: fmt.Sprintf("%v", v)})
		case string:
			items = append(items, obsItem{s: fmt.Sprintf("%q", v)})
		case symstr:
			items = append(items, obsItem{isBytes: true, cells: append([]value(nil), v...)})
		case []value:
			// []byte-like or list of scalars
			allBytes := len(v) > 0
			for _, c := range v {
				if k, ok := hostKind(c); ok && k == types.Uint8 {
					continue
				}
				if s, ok := c.(sv); ok && s.k == types.Uint8 {
					continue
				}
				allBytes = false
			}
			if allBytes || len(v) == 0 {
				items = append(items, obsItem{isBytes: true, cells: append([]value(nil), v...)})
				return
			}
			items = append(items, obsItem{s: "["})
			for _, c := range v {
				add(c)
			}
			items = append(items, obsItem{s: "]"})
		case float64:
			items = append(items, obsItem{s: fmt.Sprintf("%v", v)})
		case *value:
			if v == nil {
				items = append(items, obsItem{s: "nil"})
			} else {
				items = append(items, obsItem{s: "ptr"})
			}
		default:
			items = append(items, obsItem{s: fmt.Sprintf("<%T>", v)})
		}
	}
	for _, v := range vals {
		add(v)
	}
	e.obsTerms = append(e.obsTerms, items)
}

var errorIface = types.Universe.Lookup("error").Type().Underlying().(*types.Interface)

// ---------------------------------------------------------------------------

var stdIntrinsics map[string]func(fr *frame, args []value) value

func init() {
	stdIntrinsics = map[string]func(fr *frame, args []value) value{
		"internal/bytealg.IndexByte":       intrIndexByte,
		"internal/bytealg.IndexByteString": intrIndexByte,
		"internal/bytealg.CountString":     intrCount,
		"internal/bytealg.Count":           intrCount,
		"internal/bytealg.Equal":           intrBytesEqual,
		"internal/bytealg.Compare":         intrCompare,
		"internal/bytealg.CompareString":   intrCompare,
		"internal/bytealg.MakeNoZero": func(fr *frame, args []value) value {
			n := asInt64(fr.conc(args[0], "MakeNoZero"))
			s := make([]value, n)
			for j := range s {
				s[j] = uint8(0)
			}
			return s
		},
		"internal/bytealg.Index":       intrIndex,
		"internal/bytealg.IndexString": intrIndex,
		"internal/bytealg.Cutover":     func(fr *frame, args []value) value { return int(1 << 30) },
		"bytes.Index":                  intrIndex,
		"strings.Index":                intrIndex,
		"bytes.Equal":                  intrBytesEqual,
		"internal/stringslite.Index":   intrIndex,

		"(*sync.Mutex).Lock":      func(fr *frame, args []value) value { fr.mutexLock(args[0].(*value)); return nil },
		"(*sync.Mutex).Unlock":    func(fr *frame, args []value) value { fr.mutexUnlock(args[0].(*value)); return nil },
		"(*sync.RWMutex).Lock":    func(fr *frame, args []value) value { fr.mutexLock(args[0].(*value)); return nil },
		"(*sync.RWMutex).Unlock":  func(fr *frame, args []value) value { fr.mutexUnlock(args[0].(*value)); return nil },
		"(*sync.RWMutex).RLock":   func(fr *frame, args []value) value { fr.rwRLock(args[0].(*value)); return nil },
		"(*sync.RWMutex).RUnlock": func(fr *frame, args []value) value { fr.rwRUnlock(args[0].(*value)); return nil },
		"(*sync.WaitGroup).Add": func(fr *frame, args []value) value {
			fr.wgAdd(args[0].(*value), int(asInt64(fr.conc(args[1], "wg.Add"))))
			return nil
		},
		"(*sync.WaitGroup).Done": func(fr *frame, args []value) value { fr.wgAdd(args[0].(*value), -1); return nil },
		"(*sync.WaitGroup).Wait": func(fr *frame, args []value) value { fr.wgWait(args[0].(*value)); return nil },
		"(*sync.Once).Do": func(fr *frame, args []value) value {
			p := args[0].(*value)
			s := fr.i.sched
			if s == nil {
				if fr.i.onces[p] {
					return nil
				}
				fr.i.onces[p] = true
				call(fr.i, fr, 0, args[1], nil)
				return nil
			}
			fr.mutexLock(p)
			if !s.onces[p] {
				s.onces[p] = true
				call(fr.i, fr, 0, args[1], nil)
			}
			fr.mutexUnlock(p)
			return nil
		},
		"strings.Clone":              func(fr *frame, args []value) value { return args[0] },
		"strconv.cloneString":        func(fr *frame, args []value) value { return args[0] },
		"internal/stringslite.Clone": func(fr *frame, args []value) value { return args[0] },
		"internal/abi.NoEscape":      func(fr *frame, args []value) value { return args[0] },
		"internal/abi.Escape":        func(fr *frame, args []value) value { return args[0] },
		"runtime.Gosched":            func(fr *frame, args []value) value { fr.yield(); return nil },
		"time.Sleep":                 func(fr *frame, args []value) value { fr.yield(); return nil },
		"runtime.GOMAXPROCS":         func(fr *frame, args []value) value { return 4 },
		"runtime.NumCPU":             func(fr *frame, args []value) value { return 4 },
		"runtime.SetFinalizer":       func(fr *frame, args []value) value { return nil },
		"runtime.KeepAlive":          func(fr *frame, args []value) value { return nil },
		"runtime.GC":                 func(fr *frame, args []value) value { return nil },
		"runtime.Caller":             func(fr *frame, args []value) value { return tuple{uintptr(0), "", 0, false} },
		"runtime.Callers":            func(fr *frame, args []value) value { return 0 },
		"internal/race.Acquire":      func(fr *frame, args []value) value { return nil },
		"internal/race.Release":      func(fr *frame, args []value) value { return nil },
		"internal/race.Enable":       func(fr *frame, args []value) value { return nil },
		"internal/race.Disable":      func(fr *frame, args []value) value { return nil },
		"internal/race.ReadRange":    func(fr *frame, args []value) value { return nil },
		"internal/race.WriteRange":   func(fr *frame, args []value) value { return nil },

		"math.Pow":             func(fr *frame, a []value) value { return math.Pow(a[0].(float64), a[1].(float64)) },
		"math.Log10":           func(fr *frame, a []value) value { return math.Log10(a[0].(float64)) },
		"math.Log2":            func(fr *frame, a []value) value { return math.Log2(a[0].(float64)) },
		"math.Log":             func(fr *frame, a []value) value { return math.Log(a[0].(float64)) },
		"math.Exp":             func(fr *frame, a []value) value { return math.Exp(a[0].(float64)) },
		"math.Floor":           func(fr *frame, a []value) value { return math.Floor(a[0].(float64)) },
		"math.Ceil":            func(fr *frame, a []value) value { return math.Ceil(a[0].(float64)) },
		"math.Trunc":           func(fr *frame, a []value) value { return math.Trunc(a[0].(float64)) },
		"math.Round":           func(fr *frame, a []value) value { return math.Round(a[0].(float64)) },
		"math.Sqrt":            func(fr *frame, a []value) value { return math.Sqrt(a[0].(float64)) },
		"math.Abs":             func(fr *frame, a []value) value { return math.Abs(a[0].(float64)) },
		"math.Mod":             func(fr *frame, a []value) value { return math.Mod(a[0].(float64), a[1].(float64)) },
		"math.Max":             func(fr *frame, a []value) value { return math.Max(a[0].(float64), a[1].(float64)) },
		"math.Min":             func(fr *frame, a []value) value { return math.Min(a[0].(float64), a[1].(float64)) },
		"math.Inf":             func(fr *frame, a []value) value { return math.Inf(int(asInt64(a[0]))) },
		"math.NaN":             func(fr *frame, a []value) value { return math.NaN() },
		"math.IsNaN":           func(fr *frame, a []value) value { return math.IsNaN(a[0].(float64)) },
		"math.IsInf":           func(fr *frame, a []value) value { return math.IsInf(a[0].(float64), int(asInt64(a[1]))) },
		"math.Signbit":         func(fr *frame, a []value) value { return math.Signbit(a[0].(float64)) },
		"math.Copysign":        func(fr *frame, a []value) value { return math.Copysign(a[0].(float64), a[1].(float64)) },
		"math.Float64bits":     func(fr *frame, a []value) value { return math.Float64bits(a[0].(float64)) },
		"math.Float64frombits": func(fr *frame, a []value) value { return math.Float64frombits(a[0].(uint64)) },
		"math.Float32bits":     func(fr *frame, a []value) value { return math.Float32bits(a[0].(float32)) },
		"math.Float32frombits": func(fr *frame, a []value) value { return math.Float32frombits(a[0].(uint32)) },
		"math.Ldexp":           func(fr *frame, a []value) value { return math.Ldexp(a[0].(float64), int(asInt64(a[1]))) },
		"math.Frexp": func(fr *frame, a []value) value {
			f, e := math.Frexp(a[0].(float64))
			return tuple{f, e}
		},
		"math.Modf": func(fr *frame, a []value) value {
			x, y := math.Modf(a[0].(float64))
			return tuple{x, y}
		},

		"sync/atomic.LoadInt32":            atomicLoad,
		"sync/atomic.LoadInt64":            atomicLoad,
		"sync/atomic.LoadUint32":           atomicLoad,
		"sync/atomic.LoadUint64":           atomicLoad,
		"sync/atomic.LoadPointer":          atomicLoad,
		"sync/atomic.StoreInt32":           atomicStore,
		"sync/atomic.StoreInt64":           atomicStore,
		"sync/atomic.StoreUint32":          atomicStore,
		"sync/atomic.StoreUint64":          atomicStore,
		"sync/atomic.AddInt32":             atomicAdd,
		"sync/atomic.AddInt64":             atomicAdd,
		"sync/atomic.AddUint32":            atomicAdd,
		"sync/atomic.AddUint64":            atomicAdd,
		"sync/atomic.CompareAndSwapInt32":  atomicCAS,
		"sync/atomic.CompareAndSwapInt64":  atomicCAS,
		"sync/atomic.CompareAndSwapUint32": atomicCAS,
		"sync/atomic.CompareAndSwapUint64": atomicCAS,
	}
}

func atomicLoad(fr *frame, a []value) value {
	if s := fr.i.sched; s != nil {
		s.point(fr)
		s.atomSync(a[0].(*value))
	}
	return *a[0].(*value)
}
func atomicStore(fr *frame, a []value) value {
	if s := fr.i.sched; s != nil {
		s.point(fr)
		s.atomSync(a[0].(*value))
	}
	*a[0].(*value) = a[1]
	return nil
}
func atomicAdd(fr *frame, a []value) value {
	if s := fr.i.sched; s != nil {
		s.point(fr)
		s.atomSync(a[0].(*value))
	}
	p := a[0].(*value)
	*p = fr.binop(addTok, nil, *p, a[1])
	return *p
}
func atomicCAS(fr *frame, a []value) value {
	if s := fr.i.sched; s != nil {
		s.point(fr)
		s.atomSync(a[0].(*value))
	}
	p := a[0].(*value)
	if equals(nil, *p, a[1]) {
		*p = a[2]
		return true
	}
	return false
}

func cellsOf(v value) []value {
	switch v := v.(type) {
	case []value:
		return v
	case string, symstr:
		return strCells(v)
	}
	panic(fmt.Sprintf("cellsOf: %T", v))
}

func byteEq(fr *frame, a, b value) *sym.Term {
	ta, _ := fr.i.term(a)
	tb, _ := fr.i.term(b)
	return fr.i.ctx.Eq(ta, tb)
}

// IndexByte: the position of the first match is a decision per position.
func intrIndexByte(fr *frame, args []value) value {
	cells := cellsOf(args[0])
	for j, c := range cells {
		if fr.branch(byteEq(fr, c, args[1])) {
			return j
		}
	}
	return -1
}

func intrCount(fr *frame, args []value) value {
	cells := cellsOf(args[0])
	c := fr.i.ctx
	var sum value = int(0)
	for _, x := range cells {
		eq := byteEq(fr, x, args[1])
		one, _ := fr.i.term(int(1))
		zero, _ := fr.i.term(int(0))
		sum = fr.binop(addTok, nil, sum, fr.i.mkval(c.Ite(eq, one, zero), types.Int))
	}
	return sum
}

func intrBytesEqual(fr *frame, args []value) value {
	a, b := cellsOf(args[0]), cellsOf(args[1])
	return fr.i.mkval(fr.i.strEq(symstr(a), symstr(b)), types.Bool)
}

func intrCompare(fr *frame, args []value) value {
	a, b := symstr(cellsOf(args[0])), symstr(cellsOf(args[1]))
	i := fr.i
	if fr.branch(i.strEq(a, b)) {
		return 0
	}
	if fr.branch(i.strLess(a, b)) {
		return -1
	}
	return 1
}

func intrIndex(fr *frame, args []value) value {
	a, b := cellsOf(args[0]), cellsOf(args[1])
	n := len(b)
	for j := 0; j+n <= len(a); j++ {
		if fr.branch(fr.i.strEq(symstr(a[j:j+n]), symstr(b))) {
			return j
		}
	}
	return -1
}

var _ = unsafe.Pointer(nil)
