package bed

// C02 (write-then-read), C03 (reader totality), C04 (terminators) for BED.

import (
	"bytes"
	"image/color"
	"io"

	"github.com/biogo/biogo/feat"
	"github.com/biogo/biogo/seq"
)

func verifRead(r *Reader) (f feat.Feature, err error, panicked bool) {
	defer func() {
		if p := recover(); p != nil {
			if _, ok := p.(verifAssumeFailed); ok {
				panic(p)
			}
			panicked = true
		}
	}()
	f, err = r.Read()
	return
}

func verifDrive(data []byte, bedType, lines int, tag string) {
	r, err := NewReader(bytes.NewReader(data), bedType)
	verifAssert(err == nil, "reader-accepts-bed-type")
	calls := 0
	ended := false
	for calls < len(data)+3 {
		f, err, panicked := verifRead(r)
		calls++
		verifAssert(!panicked, tag+"-read-never-panics")
		if panicked {
			return
		}
		verifAssert(f != nil || err != nil, tag+"-record-or-error")
		if err == io.EOF {
			ended = true
			break
		}
	}
	verifAssert(ended, tag+"-reaches-eof")
	verifAssert(calls <= lines+2, tag+"-ends-within-one-call-per-line-plus-one")
}

// VerifC03_Bed: every byte symbolic.
func VerifC03_Bed() {
	n, bedType := verifParam("n"), verifParam("bedtype")
	data := make([]byte, n)
	lines := 0
	for i := range data {
		data[i] = verifByte("b"+string(rune('a'+i)), 0, 127)
		if data[i] == '\n' {
			lines++
		}
	}
	verifDrive(data, bedType, lines, "arbitrary")
	verifObserve("c03bed", n, bedType, lines)
	verifReach("end")
}

// numeric boundary values and malformed numbers for structured mutation
var verifNumbers = []string{"0", "-1", "7", "9223372036854775807", "9223372036854775808", "0x10", "1_0", "x", ""}

// VerifC03_BedStructured: a valid line with symbolic text holes and ONE symbolic mutation
// (delete / duplicate / empty a column, replace a numeric column by a boundary value, truncate).
func VerifC03_BedStructured() {
	bedType := verifParam("bedtype")
	cols := [][]byte{
		{verifByte("chrom", 0x21, 0x7e)}, []byte("10"), []byte("20"),
		{verifByte("name", 0x21, 0x7e)}, []byte("5"), {verifByte("strand", 0x21, 0x7e)},
		[]byte("12"), []byte("18"), []byte("1,2,3"), []byte("2"), []byte("5,6"), []byte("0,7"),
	}
	ncols := bedType
	use := append([][]byte(nil), cols[:ncols]...)
	missing := false
	mutation := verifChoice("mutation", 6)
	switch mutation {
	case 1:
		k := verifChoice("delcol", ncols)
		use = append(append([][]byte(nil), use[:k]...), use[k+1:]...)
		missing = true
	case 2:
		k := verifChoice("dupcol", ncols)
		use = append(append(append([][]byte(nil), use[:k+1]...), use[k]), use[k+1:]...)
	case 3:
		use[verifChoice("emptycol", ncols)] = nil
	case 4:
		numeric := []int{1, 2, 4, 6, 7, 8, 9, 10, 11}
		var ks []int
		for _, k := range numeric {
			if k < ncols {
				ks = append(ks, k)
			}
		}
		use[ks[verifChoice("numcol", len(ks))]] = []byte(verifNumbers[verifChoice("numval", len(verifNumbers))])
	}
	line := bytes.Join(use, []byte{'\t'})
	if mutation == 5 {
		line = line[:verifChoice("cut", len(line))]
	}
	text := append(append([]byte(nil), line...), '\n')
	r, err := NewReader(bytes.NewReader(text), bedType)
	verifAssert(err == nil, "reader-accepts-bed-type")
	f, rerr, panicked := verifRead(r)
	verifAssert(!panicked, "structured-read-never-panics")
	if panicked {
		return
	}
	verifAssert(f != nil || rerr != nil, "structured-record-or-error")
	if missing {
		verifAssert(rerr != nil, "missing-mandatory-column-is-an-error")
	}
	_, rerr2, panicked2 := verifRead(r)
	verifAssert(!panicked2 && rerr2 == io.EOF, "structured-then-eof")
	verifObserve("c03beds", bedType, len(text), rerr != nil)
	verifReach("end")
}

var _ = color.RGBA{}
var _ = seq.Plus
