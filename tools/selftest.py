#!/usr/bin/env python3
"""Engine self-test (not a property check): common Go idioms on symbolic inputs, each witness
replayed natively and compared with the engine's observations. usage: tools/selftest.py"""
import sys, json, os
sys.path.insert(0, '/verif')
import vcheck, checks
P = "util"
M = "github.com/biogo/biogo/zz_verifmodel."
MODELS = {"fmt." + f: M + f for f in ("Fprintf", "Fprint", "Fprintln", "Sprintf", "Sprint", "Sprintln", "Errorf")}
jobs = [{"pkgdir": P, "func": "VerifSelf_" + f, "params": p, "witnesses": 6, "models": MODELS} for f, p in [
    ("Builders", {}), ("StringsFuncs", {}), ("BytesFuncs", {}), ("Strconv", {}), ("Sort", {"n": 3}), ("Sort", {"n": 4}),
    ("Maps", {}), ("Fmt", {}), ("ParallelLoop", {}), ("Control", {}), ("IO", {}), ("Arith", {})]]
jobs.append({"pkgdir": P, "func": "VerifSelf_RaceFree", "params": {}, "sched": "sym", "preempt": 2, "witnesses": 2})
jobs.append({"pkgdir": P, "func": "VerifSelf_Cond", "params": {}, "sched": "sym", "preempt": 2, "witnesses": 2})
jobs.append({"pkgdir": P, "func": "VerifSelf_Atomics", "params": {}, "sched": "sym", "preempt": 2, "witnesses": 2})
racy = [{"pkgdir": P, "func": "VerifSelf_Racy", "params": {"mode": m}, "sched": "sym", "preempt": 1, "witnesses": 0, "max_violations": 1} for m in range(6)]
checks.CHECKS["ZZ"] = {"jobs": lambda t: jobs, "functions": ["engine self-test"], "explanation": "engine self-test", "outside": ""}
rc = vcheck.run_check("ZZ", "quick")
d = json.load(open('/verif/out/gen/ZZ/result.json'))
for j in d['jobs']:
    print(j['func'], j['params'], 'paths', j['paths'], 'done', j['paths_done'], 'q', j['queries'], 'wall', round(j['wall_s'], 1), (j['undecided'] or [''])[0][:300])
# the racy idioms must each be reported as a data race
checks.CHECKS["ZZ"]["jobs"] = lambda t: racy
import io, contextlib
buf = io.StringIO()
with contextlib.redirect_stdout(buf):
    vcheck.run_check("ZZ", "quick")
d = json.load(open('/verif/out/gen/ZZ/result.json'))
for j in d['jobs']:
    labels = [v.get('Label', '') for v in (j.get('violations') or [])]
    ok = any('data-race' in l for l in labels)
    print('Racy mode', j['params']['mode'], 'reported' if ok else 'NOT REPORTED', (labels or j['undecided'] or [''])[0][:200])
    if not ok:
        rc = rc or 3
try:
    os.remove('/verif/evidence/ZZ.json')
except OSError:
    pass
print('rc', rc)
sys.exit(rc)
