package filter

// C14 — the q-gram filter reports every epsilon-match (no false negatives). Tiny bounds only:
// the filter's control flow depends on the data at every step (see DESIGN.md).

import (
	"io"

	"github.com/biogo/biogo/alphabet"
	"github.com/biogo/biogo/index/kmerindex"
	"github.com/biogo/biogo/morass"
	"github.com/biogo/biogo/seq/linear"
)

func verifDNA(name string, n int) (*linear.Seq, []int) {
	ls := make([]alphabet.Letter, n)
	code := make([]int, n)
	for i := range ls {
		x := verifInt(name+string(rune('a'+i)), 0, 3)
		ls[i] = alphabet.Letter("acgt"[x])
		code[i] = x
	}
	return linear.NewSeq(name, ls, alphabet.DNA), code
}

// VerifC14_Filter
func VerifC14_Filter() {
	k, n, e, off := verifParam("k"), verifParam("n"), verifParam("e"), verifParam("offset")
	tl, ql := verifParam("tlen"), verifParam("qlen")
	self := verifParam("self") == 1
	if k < kmerindex.MinKmerLen {
		kmerindex.MinKmerLen = k
	}
	target, tc := verifDNA("t", tl)
	var query *linear.Seq
	var qc []int
	if self {
		query, qc = target, tc
	} else {
		query, qc = verifDNA("q", ql)
	}
	ki, err := kmerindex.New(k, target)
	verifAssert(err == nil, "index-accepts")
	if err != nil {
		return
	}
	ki.Build()
	f := New(ki, &Params{WordSize: k, MinMatch: n, MaxError: e, TubeOffset: off})
	m, err := morass.New(Hit{}, "verif", "", 1000, false)
	verifAssert(err == nil, "sorter-accepts")
	if err != nil {
		return
	}
	ferr := f.Filter(query, self, false, m)
	verifAssert(ferr == nil, "filter-succeeds")
	if ferr != nil {
		return
	}
	var hits []Hit
	for i := 0; i < 64; i++ {
		var h Hit
		if m.Pull(&h) == io.EOF {
			break
		}
		hits = append(hits, h)
	}
	m.CleanUp()
	band := off + e
	// every pair of length-n windows with at most e substitutions must be covered by a hit
	for t0 := 0; t0+n <= len(tc); t0++ {
		for q0 := 0; q0+n <= len(qc); q0++ {
			if self && q0 <= t0 {
				continue // self comparison: only matches strictly above the main diagonal
			}
			mism := 0
			for i := 0; i < n; i++ {
				if tc[t0+i] != qc[q0+i] {
					mism++
				}
			}
			if mism > e {
				continue
			}
			covered := false
			d := q0 - t0
			for _, h := range hits {
				// the consumer (Merger.MergeFilterHit) reads the band in q-t units:
				// -Diagonal <= q-t <= -Diagonal + (TubeOffset+MaxError) - 1
				if h.From <= q0+n-1 && h.To > q0 && -h.Diagonal <= d && d <= -h.Diagonal+band-1 {
					covered = true
				}
			}
			verifAssert(covered, "epsilon-match-covered-by-a-hit")
		}
	}
	verifObserve("c14", tl, ql, len(hits))
	verifReach("end")
}

const verifTemplate = "acgtcatgcaagtctgacctagcatggacttca"

// low-complexity templates: homopolymer runs and short periods give matches on many diagonals
// at once, so that many tubes are live and every tube index is exercised
var verifTemplates = []string{verifTemplate, "aaaacaacaaaaaaacaaaacaacaaaaaaacaa", "gagtttttagagtcaagtcgagtttttaagtc", "acacacacgacacacacacagacacacacaca"}

// VerifC14_Template: longer sequences, so that the tube-recycling tick fires several times and
// the circular tube list wraps. Target = a fixed template prefix; query = the template from
// `shift` on; the positions selected by the bit masks tsym / qsym are symbolic letters.
func VerifC14_Template() {
	k, n, e, off := verifParam("k"), verifParam("n"), verifParam("e"), verifParam("offset")
	tl, ql, shift := verifParam("tlen"), verifParam("qlen"), verifParam("shift")
	tmask, qmask := verifParam("tsym"), verifParam("qsym")
	cut, shift2 := verifParam("cut"), verifParam("shift2") // from position cut on the query follows the template at shift2: matches on a second diagonal
	if k < kmerindex.MinKmerLen {
		kmerindex.MinKmerLen = k
	}
	code := func(c byte) int {
		switch c {
		case 'a':
			return 0
		case 'c':
			return 1
		case 'g':
			return 2
		}
		return 3
	}
	mk := func(name string, l, from, mask int) (*linear.Seq, []int) {
		ls := make([]alphabet.Letter, l)
		cs := make([]int, l)
		for i := range ls {
			at := from + i
			if name == "q" && i >= cut {
				at = shift2 + i - cut
			}
			tpl := verifTemplates[verifParam("tpl")]
			x := code(tpl[at%len(tpl)])
			if mask&(1<<uint(i)) != 0 {
				x = verifInt(name+string(rune('a'+i)), 0, 3)
			}
			cs[i] = x
			ls[i] = alphabet.Letter("acgt"[x])
		}
		return linear.NewSeq(name, ls, alphabet.DNA), cs
	}
	target, tc := mk("t", tl, 0, tmask)
	query, qc := mk("q", ql, shift, qmask)
	ki, err := kmerindex.New(k, target)
	verifAssert(err == nil, "index-accepts")
	if err != nil {
		return
	}
	ki.Build()
	f := New(ki, &Params{WordSize: k, MinMatch: n, MaxError: e, TubeOffset: off})
	m, err := morass.New(Hit{}, "verif", "", 1000, false)
	verifAssert(err == nil, "sorter-accepts")
	if err != nil {
		return
	}
	ferr := f.Filter(query, false, false, m)
	verifAssert(ferr == nil, "filter-succeeds")
	if ferr != nil {
		return
	}
	var hits []Hit
	for i := 0; i < 256; i++ {
		var h Hit
		if m.Pull(&h) == io.EOF {
			break
		}
		hits = append(hits, h)
	}
	m.CleanUp()
	band := off + e
	matches := 0
	for t0 := 0; t0+n <= len(tc); t0++ {
		for q0 := 0; q0+n <= len(qc); q0++ {
			mism := 0
			for i := 0; i < n; i++ {
				if tc[t0+i] != qc[q0+i] {
					mism++
				}
			}
			if mism > e {
				continue
			}
			matches++
			covered := false
			d := q0 - t0
			for _, h := range hits {
				if h.From <= q0+n-1 && h.To > q0 && -h.Diagonal <= d && d <= -h.Diagonal+band-1 {
					covered = true
				}
			}
			verifAssert(covered, "epsilon-match-covered-by-a-hit")
		}
	}
	verifObserve("c14t", tl, ql, len(hits), matches)
	verifReach("end")
}
