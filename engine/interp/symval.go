package interp

// Symbolic scalar values and the symbolic versions of binop/unop/conv.

import (
	"fmt"
	"go/token"
	"go/types"
	"math"

	"verif/engine/sym"
)

// sv is a symbolic scalar (any integer kind, or bool). Concrete scalars stay
// host values; an sv is only created when the term is not a constant.
type sv struct {
	t *sym.Term
	k types.BasicKind
}

func kindBits(k types.BasicKind) uint8 {
	switch k {
	case types.Int8, types.Uint8:
		return 8
	case types.Int16, types.Uint16:
		return 16
	case types.Int32, types.Uint32:
		return 32
	}
	return 64
}

func kindSigned(k types.BasicKind) bool {
	switch k {
	case types.Int, types.Int8, types.Int16, types.Int32, types.Int64:
		return true
	}
	return false
}

func kindRange(k types.BasicKind) (lo, hi int64, hiU uint64) {
	w := kindBits(k)
	if kindSigned(k) {
		return -(1 << (w - 1)), (1 << (w - 1)) - 1, (1 << (w - 1)) - 1
	}
	if w == 64 {
		return 0, math.MaxInt64, math.MaxUint64
	}
	return 0, (1 << w) - 1, (1 << w) - 1
}

func basicKind(t types.Type) types.BasicKind {
	b, ok := t.Underlying().(*types.Basic)
	if !ok {
		return types.Invalid
	}
	k := b.Kind()
	switch k {
	case types.UntypedInt:
		return types.Int
	case types.UntypedRune:
		return types.Int32
	case types.UntypedBool:
		return types.Bool
	}
	return k
}

// hostKind returns the kind of a concrete host scalar.
func hostKind(v value) (types.BasicKind, bool) {
	switch v.(type) {
	case bool:
		return types.Bool, true
	case int:
		return types.Int, true
	case int8:
		return types.Int8, true
	case int16:
		return types.Int16, true
	case int32:
		return types.Int32, true
	case int64:
		return types.Int64, true
	case uint:
		return types.Uint, true
	case uint8:
		return types.Uint8, true
	case uint16:
		return types.Uint16, true
	case uint32:
		return types.Uint32, true
	case uint64:
		return types.Uint64, true
	case uintptr:
		return types.Uintptr, true
	}
	return types.Invalid, false
}

func isSym(v value) bool { _, ok := v.(sv); return ok }

// hostOf builds the host value of kind k from raw bits.
func hostOf(k types.BasicKind, bits uint64) value {
	switch k {
	case types.Bool:
		return bits != 0
	case types.Int:
		return int(int64(bits))
	case types.Int8:
		return int8(bits)
	case types.Int16:
		return int16(bits)
	case types.Int32:
		return int32(bits)
	case types.Int64:
		return int64(bits)
	case types.Uint:
		return uint(bits)
	case types.Uint8:
		return uint8(bits)
	case types.Uint16:
		return uint16(bits)
	case types.Uint32:
		return uint32(bits)
	case types.Uint64:
		return bits
	case types.Uintptr:
		return uintptr(bits)
	}
	panic(fmt.Sprintf("hostOf: kind %v", k))
}

// term lifts a scalar value to a term in the interpreter's integer mode.
func (i *interpreter) term(v value) (*sym.Term, types.BasicKind) {
	if s, ok := v.(sv); ok {
		return s.t, s.k
	}
	k, ok := hostKind(v)
	if !ok {
		panic(unsupported(fmt.Sprintf("term: non-scalar %T", v)))
	}
	if k == types.Bool {
		return i.ctx.Bool(v.(bool)), k
	}
	if i.math {
		if kindSigned(k) {
			return i.ctx.Int(asInt64(v)), k
		}
		u := asUint64(v)
		if u > math.MaxInt64 {
			panic(unsupported("math mode: unsigned constant above MaxInt64"))
		}
		return i.ctx.Int(int64(u)), k
	}
	return i.ctx.BV(uint64(asInt64(v)), kindBits(k)), k
}

// mkval wraps a term as a value, returning a host value for constants.
func (i *interpreter) mkval(t *sym.Term, k types.BasicKind) value {
	if t.IsConst() {
		if t.Sort == sym.SBool {
			return t.Val == 1
		}
		if t.Sort == sym.SBV && kindSigned(k) {
			return hostOf(k, uint64(t.SignedVal()))
		}
		return hostOf(k, t.Val)
	}
	return sv{t, k}
}

type unsupportedErr struct{ msg string }

func unsupported(msg string) unsupportedErr { return unsupportedErr{msg} }

// ---------------------------------------------------------------------------

func (i *interpreter) symBinop(fr *frame, op token.Token, x, y value) value {
	c := i.ctx
	tx, kx := i.term(x)
	ty, ky := i.term(y)
	if kx == types.Bool {
		switch op {
		case token.EQL:
			return i.mkval(c.Eq(tx, ty), types.Bool)
		case token.NEQ:
			return i.mkval(c.Not(c.Eq(tx, ty)), types.Bool)
		case token.AND, token.LAND:
			return i.mkval(c.And(tx, ty), types.Bool)
		case token.OR, token.LOR:
			return i.mkval(c.Or(tx, ty), types.Bool)
		}
		panic(unsupported("bool binop " + op.String()))
	}
	signed := kindSigned(kx)
	if i.math {
		return i.mathBinop(fr, op, tx, ty, kx, ky)
	}
	w := kindBits(kx)
	switch op {
	case token.SHL, token.SHR:
		// bring the shift count to x's width, saturating
		wy := kindBits(ky)
		var s *sym.Term
		if wy > w {
			big := c.Ule(c.BV(uint64(w), wy), ty)
			s = c.Ite(big, c.BV(uint64(w), w), c.Extract(ty, w))
		} else {
			s = c.ZExt(ty, w)
		}
		if op == token.SHL {
			return i.mkval(c.Shl(tx, s), kx)
		}
		if signed {
			return i.mkval(c.AShr(tx, s), kx)
		}
		return i.mkval(c.LShr(tx, s), kx)
	}
	if kx != ky {
		panic(unsupported(fmt.Sprintf("binop %s on kinds %v,%v", op, kx, ky)))
	}
	switch op {
	case token.ADD:
		return i.mkval(c.Add(tx, ty), kx)
	case token.SUB:
		return i.mkval(c.Sub(tx, ty), kx)
	case token.MUL:
		return i.mkval(c.Mul(tx, ty), kx)
	case token.QUO, token.REM:
		zero := c.Eq(ty, c.BV(0, w))
		if fr.branch(zero) {
			panic(runtimeError("integer divide by zero"))
		}
		var r *sym.Term
		switch {
		case op == token.QUO && signed:
			r = c.SDiv(tx, ty)
		case op == token.QUO:
			r = c.UDiv(tx, ty)
		case signed:
			r = c.SRem(tx, ty)
		default:
			r = c.URem(tx, ty)
		}
		return i.mkval(r, kx)
	case token.AND:
		return i.mkval(c.BAnd(tx, ty), kx)
	case token.OR:
		return i.mkval(c.BOr(tx, ty), kx)
	case token.XOR:
		return i.mkval(c.BXor(tx, ty), kx)
	case token.AND_NOT:
		return i.mkval(c.BAnd(tx, c.BNot(ty)), kx)
	case token.EQL:
		return i.mkval(c.Eq(tx, ty), types.Bool)
	case token.NEQ:
		return i.mkval(c.Not(c.Eq(tx, ty)), types.Bool)
	case token.LSS:
		if signed {
			return i.mkval(c.Slt(tx, ty), types.Bool)
		}
		return i.mkval(c.Ult(tx, ty), types.Bool)
	case token.LEQ:
		if signed {
			return i.mkval(c.Sle(tx, ty), types.Bool)
		}
		return i.mkval(c.Ule(tx, ty), types.Bool)
	case token.GTR:
		if signed {
			return i.mkval(c.Slt(ty, tx), types.Bool)
		}
		return i.mkval(c.Ult(ty, tx), types.Bool)
	case token.GEQ:
		if signed {
			return i.mkval(c.Sle(ty, tx), types.Bool)
		}
		return i.mkval(c.Ule(ty, tx), types.Bool)
	}
	panic(unsupported("binop " + op.String()))
}

// mathRange checks that t fits kind k; if the interval does not prove it, a
// solver obligation is raised (guarded by the current if-conversion guard).
func (i *interpreter) mathRange(fr *frame, t *sym.Term, k types.BasicKind, what string) {
	lo, hi, _ := kindRange(k)
	if t.Lo >= lo && t.Hi <= hi {
		return
	}
	c := i.ctx
	bad := c.Or(c.Lt(t, c.Int(lo)), c.Lt(c.Int(hi), t))
	i.obligation(fr, bad, "math-mode overflow in "+what)
}

func (i *interpreter) mathBinop(fr *frame, op token.Token, tx, ty *sym.Term, kx, ky types.BasicKind) value {
	c := i.ctx
	switch op {
	case token.ADD:
		r := c.Add(tx, ty)
		i.mathRange(fr, r, kx, "+")
		return i.mkval(r, kx)
	case token.SUB:
		r := c.Sub(tx, ty)
		i.mathRange(fr, r, kx, "-")
		return i.mkval(r, kx)
	case token.MUL:
		r := c.Mul(tx, ty)
		i.mathRange(fr, r, kx, "*")
		return i.mkval(r, kx)
	case token.QUO, token.REM:
		if fr.branch(c.Eq(ty, c.Int(0))) {
			panic(runtimeError("integer divide by zero"))
		}
		var q *sym.Term
		if tx.Lo >= 0 && ty.Lo > 0 {
			q = c.IDivFloor(tx, ty)
		} else {
			q = c.Ite(c.Le(c.Int(0), tx), c.IDivFloor(tx, ty), c.Neg(c.IDivFloor(c.Neg(tx), ty)))
		}
		if op == token.QUO {
			i.mathRange(fr, q, kx, "/")
			return i.mkval(q, kx)
		}
		if tx.Lo >= 0 && ty.Lo > 0 {
			return i.mkval(c.IModFloor(tx, ty), kx)
		}
		return i.mkval(c.Sub(tx, c.Mul(ty, q)), kx)
	case token.EQL:
		return i.mkval(c.Eq(tx, ty), types.Bool)
	case token.NEQ:
		return i.mkval(c.Not(c.Eq(tx, ty)), types.Bool)
	case token.LSS:
		return i.mkval(c.Lt(tx, ty), types.Bool)
	case token.LEQ:
		return i.mkval(c.Le(tx, ty), types.Bool)
	case token.GTR:
		return i.mkval(c.Lt(ty, tx), types.Bool)
	case token.GEQ:
		return i.mkval(c.Le(ty, tx), types.Bool)
	case token.AND:
		// x & 2^b with x >= 0
		if ty.IsConst() && tx.Lo >= 0 {
			if m := ty.Int64(); m > 0 && m&(m-1) == 0 && m != 1 {
				set := c.Eq(c.IModFloor(c.IDivFloor(tx, c.Int(m)), c.Int(2)), c.Int(1))
				return i.mkval(c.Ite(set, c.Int(m), c.Int(0)), kx)
			}
		}
		// x & (2^k-1) with x >= 0
		if ty.IsConst() && tx.Lo >= 0 {
			m := ty.Int64()
			if m >= 0 && m&(m+1) == 0 {
				return i.mkval(c.IModFloor(tx, c.Int(m+1)), kx)
			}
		}
		if tx.IsConst() && ty.Lo >= 0 {
			m := tx.Int64()
			if m >= 0 && m&(m+1) == 0 {
				return i.mkval(c.IModFloor(ty, c.Int(m+1)), kx)
			}
		}
	case token.OR, token.AND_NOT, token.XOR:
		// single-bit constant on a non-negative operand: bit b of x is (x div 2^b) mod 2
		var x *sym.Term
		var m int64 = -1
		if ty.IsConst() && tx.Lo >= 0 {
			x, m = tx, ty.Int64()
		} else if tx.IsConst() && ty.Lo >= 0 && op != token.AND_NOT {
			x, m = ty, tx.Int64()
		}
		if x != nil && m > 0 && m&(m-1) == 0 {
			set := c.Eq(c.IModFloor(c.IDivFloor(x, c.Int(m)), c.Int(2)), c.Int(1))
			var r *sym.Term
			switch op {
			case token.OR:
				r = c.Ite(set, x, c.Add(x, c.Int(m)))
			case token.AND_NOT:
				r = c.Ite(set, c.Sub(x, c.Int(m)), x)
			default:
				r = c.Ite(set, c.Sub(x, c.Int(m)), c.Add(x, c.Int(m)))
			}
			i.mathRange(fr, r, kx, "bit-op")
			return i.mkval(r, kx)
		}
		if m == 0 {
			return i.mkval(x, kx)
		}
	case token.SHL:
		if ty.IsConst() && ty.Int64() >= 0 && ty.Int64() < 62 {
			r := c.Mul(tx, c.Int(1<<uint(ty.Int64())))
			i.mathRange(fr, r, kx, "<<")
			return i.mkval(r, kx)
		}
	case token.SHR:
		if ty.IsConst() && ty.Int64() >= 0 && ty.Int64() < 62 {
			return i.mkval(c.IDivFloor(tx, c.Int(1<<uint(ty.Int64()))), kx)
		}
	}
	panic(unsupported(fmt.Sprintf("math mode: symbolic operands of %s", op)))
}

func (i *interpreter) symUnop(fr *frame, op token.Token, x value) value {
	c := i.ctx
	t, k := i.term(x)
	switch op {
	case token.NOT:
		return i.mkval(c.Not(t), types.Bool)
	case token.SUB:
		r := c.Neg(t)
		if i.math {
			i.mathRange(fr, r, k, "neg")
		}
		return i.mkval(r, k)
	case token.XOR:
		if i.math {
			if kindSigned(k) {
				return i.mkval(c.Sub(c.Int(-1), t), k) // ^x = -x-1
			}
			panic(unsupported("math mode: ^ on unsigned"))
		}
		return i.mkval(c.BNot(t), k)
	}
	panic(unsupported("unop " + op.String()))
}

// symConvInt converts a symbolic integer to another integer kind.
func (i *interpreter) symConvInt(fr *frame, x sv, dst types.BasicKind) value {
	c := i.ctx
	if x.k == types.Bool {
		panic(unsupported("conv from bool"))
	}
	if i.math {
		lo, hi, _ := kindRange(dst)
		if x.t.Lo >= lo && x.t.Hi <= hi {
			return sv{x.t, dst}
		}
		// wrap: ((x - lo) mod 2^w) + lo ; for 64-bit kinds the modulus does not fit: refuse
		w := kindBits(dst)
		if w == 64 {
			// int64 <-> uint64 reinterpretation of possibly-negative values
			bad := c.Or(c.Lt(x.t, c.Int(lo)), c.Lt(c.Int(hi), x.t))
			i.obligation(fr, bad, "math-mode 64-bit reinterpreting conversion")
			return sv{x.t, dst}
		}
		m := c.Int(1 << w)
		r := c.Add(c.IModFloor(c.Sub(x.t, c.Int(lo)), m), c.Int(lo))
		return i.mkval(r, dst)
	}
	ws, wd := kindBits(x.k), kindBits(dst)
	var r *sym.Term
	switch {
	case wd == ws:
		r = x.t
	case wd < ws:
		r = c.Extract(x.t, wd)
	case kindSigned(x.k):
		r = c.SExt(x.t, wd)
	default:
		r = c.ZExt(x.t, wd)
	}
	return i.mkval(r, dst)
}

// truth converts a bool value (host or symbolic) to a term.
func (i *interpreter) truth(v value) *sym.Term {
	switch v := v.(type) {
	case bool:
		return i.ctx.Bool(v)
	case sv:
		return v.t
	}
	panic(fmt.Sprintf("truth: %T", v))
}

// iteVal merges two values of the same static type under cond (scalars -> ite,
// aggregates field-wise). ok=false if they cannot be merged.
func (i *interpreter) iteVal(cond *sym.Term, a, b value) (value, bool) {
	if cond.IsTrue() {
		return a, true
	}
	if cond.IsFalse() {
		return b, true
	}
	switch av := a.(type) {
	case structure:
		bv, ok := b.(structure)
		if !ok || len(av) != len(bv) {
			return nil, false
		}
		r := make(structure, len(av))
		for j := range av {
			m, ok := i.iteVal(cond, av[j], bv[j])
			if !ok {
				return nil, false
			}
			r[j] = m
		}
		return r, true
	case array:
		bv, ok := b.(array)
		if !ok || len(av) != len(bv) {
			return nil, false
		}
		r := make(array, len(av))
		for j := range av {
			m, ok := i.iteVal(cond, av[j], bv[j])
			if !ok {
				return nil, false
			}
			r[j] = m
		}
		return r, true
	}
	ka, oka := hostKind(a)
	if s, ok := a.(sv); ok {
		ka, oka = s.k, true
	}
	kb, okb := hostKind(b)
	if s, ok := b.(sv); ok {
		kb, okb = s.k, true
	}
	if oka && okb && ka == kb {
		ta, _ := i.term(a)
		tb, _ := i.term(b)
		return i.mkval(i.ctx.Ite(cond, ta, tb), ka), true
	}
	// identical non-scalars
	if sameConcrete(a, b) {
		return a, true
	}
	return nil, false
}

func sameConcrete(a, b value) (eq bool) {
	defer func() {
		if recover() != nil {
			eq = false
		}
	}()
	switch a := a.(type) {
	case string:
		bs, ok := b.(string)
		return ok && a == bs
	case float64:
		bf, ok := b.(float64)
		return ok && (a == bf || (a != a && bf != bf))
	case float32:
		bf, ok := b.(float32)
		return ok && a == bf
	case *value:
		bp, ok := b.(*value)
		return ok && a == bp
	case iface:
		bi, ok := b.(iface)
		return ok && sameType(a.t, bi.t) && (a.t == nil || sameConcrete(a.v, bi.v))
	case []value:
		bs, ok := b.([]value)
		if !ok || len(a) != len(bs) || cap(a) != cap(bs) {
			return false
		}
		if len(a) == 0 {
			return (a == nil) == (bs == nil)
		}
		return &a[0] == &bs[0]
	case *closure:
		bc, ok := b.(*closure)
		return ok && a == bc
	}
	return false
}

type runtimeErr struct{ msg string }

func (e runtimeErr) Error() string { return "runtime error: " + e.msg }
func (e runtimeErr) RuntimeError() {}

func runtimeError(msg string) runtimeErr { return runtimeErr{msg} }
