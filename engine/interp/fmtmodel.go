package interp

// Minimal fmt intrinsics: formatting is delegated to the host's fmt on concrete operands.
// When an operand is symbolic the result is an opaqueStr: it can be carried around, wrapped
// in an error, concatenated and formatted again, but any inspection (length, index,
// comparison, conversion) is reported as unsupported, so a run never decides anything from
// a made-up rendering. Writers whose output is a verification subject use the Go model
// package (zz_verifmodel) instead.

import (
	"fmt"
	"go/types"
	"strings"
)

// opaqueStr is the result of host formatting with symbolic operands.
type opaqueStr struct{}

const opaqueMark = "\x00?\x00"

func (fr *frame) hostArg(v value) interface{} {
	switch v := v.(type) {
	case opaqueStr:
		return opaqueMark
	case iface:
		if v.t == nil {
			return nil
		}
		// error / Stringer
		for _, name := range []string{"Error", "String"} {
			if m := fr.methodNamed(v.t, name); m != nil {
				func() {
					defer func() {
						if p := recover(); p != nil {
							switch p.(type) {
							case pathEnd, unsupportedErr, goroutineKill, regionAbort:
								panic(p)
							}
						}
					}()
				}()
				r := call(fr.i, fr, 0, m, []value{v.v})
				if s, ok := r.(string); ok {
					return s
				}
				return opaqueMark
			}
		}
		return fr.hostArg(v.v)
	case sv, symstr, symFloat:
		return opaqueMark
	case []value:
		b := make([]byte, 0, len(v))
		for _, c := range v {
			u, ok := c.(uint8)
			if !ok {
				return opaqueMark
			}
			b = append(b, u)
		}
		return b
	case *value:
		if v == nil {
			return nil
		}
		return "&?"
	case structure, array, *omap, *closure:
		return opaqueMark
	}
	return v
}

// hostStr turns the host rendering into a value: opaque if any operand was.
func hostStr(s string) value {
	if strings.Contains(s, opaqueMark) {
		return opaqueStr{}
	}
	return s
}

func (fr *frame) methodNamed(t types.Type, name string) value {
	ms := fr.i.prog.MethodSets.MethodSet(t)
	for k := 0; k < ms.Len(); k++ {
		sel := ms.At(k)
		if sel.Obj().Name() == name {
			sig := sel.Type().(*types.Signature)
			if sig.Params().Len() == 0 && sig.Results().Len() == 1 {
				if b, ok := sig.Results().At(0).Type().Underlying().(*types.Basic); ok && b.Kind() == types.String {
					if f := fr.i.prog.MethodValue(sel); f != nil {
						return f
					}
				}
			}
		}
	}
	return nil
}

func (fr *frame) hostArgs(vs value) []interface{} {
	var out []interface{}
	for _, v := range vs.([]value) {
		out = append(out, fr.hostArg(v))
	}
	return out
}

func (fr *frame) newError(msg string) value { return fr.newErrorV(msg) }

// wrapVerbArg returns the operand index of the single %w verb of format, or -1.
func wrapVerbArg(format string) int {
	if strings.Count(format, "%w") == 0 {
		return -1
	}
	if strings.Count(format, "%w") > 1 {
		panic(unsupported("fmt.Errorf with more than one %w"))
	}
	arg := 0
	for i := 0; i < len(format); i++ {
		if format[i] != '%' {
			continue
		}
		i++
		for i < len(format) && strings.IndexByte("+-# 0123456789.", format[i]) >= 0 {
			i++
		}
		if i >= len(format) {
			break
		}
		switch format[i] {
		case '%':
			continue
		case '*', '[':
			panic(unsupported("fmt.Errorf with %w and '*' or indexed operands"))
		case 'w':
			return arg
		}
		arg++
	}
	return -1
}

func (fr *frame) newWrapError(msg value, err iface) value {
	fp := fr.i.prog.ImportedPackage("fmt")
	if fp == nil || fp.Type("wrapError") == nil {
		panic(unsupported("fmt.wrapError not available"))
	}
	var cell value = structure{msg, err}
	return iface{t: types.NewPointer(fp.Type("wrapError").Type()), v: &cell}
}

func (fr *frame) newErrorV(msg value) value {
	ep := fr.i.prog.ImportedPackage("errors")
	if ep == nil {
		panic(unsupported("errors package not loaded"))
	}
	t := ep.Type("errorString").Type()
	var cell value = structure{msg}
	return iface{t: types.NewPointer(t), v: &cell}
}

func init() {
	for k, v := range map[string]func(fr *frame, args []value) value{
		"fmt.Errorf": func(fr *frame, args []value) value {
			format := goString(args[0])
			msg := hostStr(fmt.Sprintf(strings.ReplaceAll(format, "%w", "%v"), fr.hostArgs(args[1])...))
			if k := wrapVerbArg(format); k >= 0 {
				if ops := args[1].([]value); k < len(ops) {
					if e, ok := ops[k].(iface); ok && e.t != nil && fr.methodOf(e.t, "Error") != nil {
						return fr.newWrapError(msg, e)
					}
				}
			}
			return fr.newErrorV(msg)
		},
		"fmt.Sprintf": func(fr *frame, args []value) value {
			return hostStr(fmt.Sprintf(goString(args[0]), fr.hostArgs(args[1])...))
		},
		"fmt.Sprint": func(fr *frame, args []value) value {
			return hostStr(fmt.Sprint(fr.hostArgs(args[0])...))
		},
		"fmt.Sprintln": func(fr *frame, args []value) value {
			return hostStr(fmt.Sprintln(fr.hostArgs(args[0])...))
		},
		"fmt.Println": func(fr *frame, args []value) value { return tuple{0, iface{}} },
		"fmt.Printf":  func(fr *frame, args []value) value { return tuple{0, iface{}} },
		"fmt.Print":   func(fr *frame, args []value) value { return tuple{0, iface{}} },
	} {
		stdIntrinsicsExtra[k] = v
	}
}

var stdIntrinsicsExtra = map[string]func(fr *frame, args []value) value{}
