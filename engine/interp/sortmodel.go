package interp

// sort.Slice / sort.SliceStable / sort.SliceIsSorted and reflect.Swapper: the reflection part
// (reflectlite.ValueOf, Swapper) is replaced by a host swap function over the interpreter's
// slice representation; the sorting algorithm itself (sort.pdqsort_func, sort.stable_func)
// is the standard library's SSA, executed as usual, so every comparison is a call of the
// target's less function and may be symbolic.

import (
	"go/token"
	"go/types"
	"math/bits"
	"strconv"

	"golang.org/x/tools/go/ssa"
)

// hostFn is a callable value implemented by the engine.
type hostFn func(fr *frame, args []value) value

func sliceSwapper(x value) (hostFn, int) {
	e, _ := x.(iface)
	s, ok := e.v.([]value)
	if !ok {
		panic(unsupported("sort.Slice / reflect.Swapper of a non-slice or symbolic-length slice"))
	}
	n := len(s)
	return func(fr *frame, args []value) value {
		a, aok := args[0].(int)
		b, bok := args[1].(int)
		if !aok || !bok {
			panic(unsupported("reflect.Swapper with symbolic indices"))
		}
		if a < 0 || a >= n || b < 0 || b >= n {
			panic(runtimeError("reflect: slice index out of range"))
		}
		s[a], s[b] = s[b], s[a]
		return nil
	}, n
}

func (i *interpreter) sortFunc(name string) *ssa.Function {
	p := i.prog.ImportedPackage("sort")
	if p == nil {
		panic(unsupported("package sort not loaded"))
	}
	f := p.Func(name)
	if f == nil {
		panic(unsupported("sort." + name + " not found"))
	}
	return f
}

func init() {
	stdIntrinsicsExtra["sort.Slice"] = func(fr *frame, args []value) value {
		swap, n := sliceSwapper(args[0])
		limit := bits.Len(uint(n))
		ls := structure{args[1], swap}
		callSSA(fr.i, fr, 0, fr.i.sortFunc("pdqsort_func"), []value{ls, 0, n, limit}, nil)
		return nil
	}
	stdIntrinsicsExtra["sort.SliceStable"] = func(fr *frame, args []value) value {
		swap, n := sliceSwapper(args[0])
		ls := structure{args[1], swap}
		callSSA(fr.i, fr, 0, fr.i.sortFunc("stable_func"), []value{ls, n}, nil)
		return nil
	}
	stdIntrinsicsExtra["sort.SliceIsSorted"] = func(fr *frame, args []value) value {
		_, n := sliceSwapper(args[0])
		for k := n - 1; k > 0; k-- {
			r := call(fr.i, fr, 0, args[1], []value{k, k - 1})
			if fr.branch(fr.i.truth(r)) {
				return false
			}
		}
		return true
	}
	sw := func(fr *frame, args []value) value {
		swap, _ := sliceSwapper(args[0])
		return swap
	}
	stdIntrinsicsExtra["reflect.Swapper"] = sw
	stdIntrinsicsExtra["internal/reflectlite.Swapper"] = sw
}

// ---------------------------------------------------------------------------------------
// errors.As (its reflectlite use replaced by go/types reasoning) and fmt.Errorf("%w").

func (fr *frame) methodOf(t types.Type, name string) *ssa.Function {
	sel := fr.i.prog.MethodSets.MethodSet(t).Lookup(nil, name)
	if sel == nil {
		return nil
	}
	return fr.i.prog.MethodValue(sel)
}

func (fr *frame) errorsAs(err value, target iface, T types.Type) bool {
	for {
		e, _ := err.(iface)
		if e.t == nil {
			return false
		}
		if types.AssignableTo(e.t, T) {
			p := target.v.(*value)
			if types.IsInterface(T) {
				*p = e
			} else {
				*p = e.v
			}
			return true
		}
		if m := fr.methodOf(e.t, "As"); m != nil && m.Signature.Params().Len() == 1 && m.Signature.Results().Len() == 1 {
			r := call(fr.i, fr, 0, m, []value{e.v, target})
			if fr.branch(fr.i.truth(r)) {
				return true
			}
		}
		m := fr.methodOf(e.t, "Unwrap")
		if m == nil || m.Signature.Params().Len() != 0 || m.Signature.Results().Len() != 1 {
			return false
		}
		r := call(fr.i, fr, 0, m, []value{e.v})
		if es, ok := r.([]value); ok {
			for _, x := range es {
				if fr.errorsAs(x, target, T) {
					return true
				}
			}
			return false
		}
		err = r
	}
}

func init() {
	stdIntrinsicsExtra["errors.As"] = func(fr *frame, args []value) value {
		target, _ := args[1].(iface)
		if target.t == nil {
			panic(targetPanic{v: iface{t: types.Typ[types.String], v: "errors: target cannot be nil"}})
		}
		pt, ok := target.t.Underlying().(*types.Pointer)
		if !ok || target.v.(*value) == nil {
			panic(targetPanic{v: iface{t: types.Typ[types.String], v: "errors: target must be a non-nil pointer"}})
		}
		return fr.errorsAs(args[0], target, pt.Elem())
	}
}

// strconv.small(i) returns a slice of a constant digit table at a symbolic offset; build the
// one or two digits directly instead of concretising the offset.
func init() {
	stdIntrinsicsExtra["strconv.small"] = func(fr *frame, args []value) value {
		if k, ok := args[0].(int); ok {
			return strconv.Itoa(k)
		}
		tInt, tByte := types.Typ[types.Int], types.Typ[types.Uint8]
		digit := func(v value) value { return fr.conv(tByte, tInt, fr.binop(token.ADD, tInt, v, 48)) }
		if fr.branch(fr.i.truth(fr.binop(token.LSS, tInt, args[0], 10))) {
			return symstr{digit(args[0])}
		}
		return symstr{digit(fr.binop(token.QUO, tInt, args[0], 10)), digit(fr.binop(token.REM, tInt, args[0], 10))}
	}
}

func init() {
	stdIntrinsicsExtra["errors.Is"] = func(fr *frame, args []value) value {
		e, _ := args[0].(iface)
		t, _ := args[1].(iface)
		if e.t == nil || t.t == nil {
			return e.t == nil && t.t == nil
		}
		p := fr.i.prog.ImportedPackage("errors")
		if p == nil || p.Func("is") == nil {
			panic(unsupported("errors.is not available"))
		}
		return callSSA(fr.i, fr, 0, p.Func("is"), []value{args[0], args[1], types.Comparable(t.t)}, nil)
	}
}
