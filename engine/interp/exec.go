package interp

// Path exploration: deterministic re-execution DFS over decision traces, with the
// solver's assertion stack mirroring the trace.

import (
	"fmt"
	"sort"
	"strings"
	"time"

	"verif/engine/smt"
	"verif/engine/sym"
)

type entryKind uint8

const (
	eBranch entryKind = iota // boolean branch on a symbolic condition
	eAssume                  // verifAssume / range constraint that pushed a level
	eChoice                  // value choice (concretisation, nondet choice, scheduler)
)

type traceEntry struct {
	kind        entryKind
	chosen      int      // index of the alternative taken
	nalt        int      // number of alternatives (branch: 1 or 2)
	alts        []uint64 // branch: {1,0} order of truth values; choice: concrete values
	levelBefore int      // solver level before this entry's push (if it asserted)
	asserted    bool
}

// pathEnd is thrown (as a host panic) to terminate the current path.
type pathEnd struct {
	kind string // "done", "assume", "violation", "unsupported", "unwind", "budget", "unknown", "overflow"
	msg  string
}

type Violation struct {
	Label   string
	Model   map[string]int64
	Trace   []int
	Observe []string
	Known   string // id of the known-finding fence this violation falls under ("" if none)
	Note    string
}

type Witness struct {
	Model   map[string]int64
	Observe []string
	Reached []string
}

type Stats struct {
	Paths        int
	PathsDone    int // reached the end of the harness
	PathsAssume  int // killed by an unsatisfiable assumption
	PathsViol    int
	Queries      int
	SolverTime   time.Duration
	Instrs       int64
	AssertChecks map[string]int // label -> number of solver-decided or constant evaluations
	AssertConst  map[string]int
	Reached      map[string]int
	Obligations  int
	MaxDepth     int
	Unknowns     int
	Funcs        map[string]int64 // function -> instructions executed
	KnownHits    map[string]int
	Regions      int
	RegionAborts int
}

type Limits struct {
	MaxPaths      int
	MaxInstrs     int64 // per path
	Unwind        int   // per loop header per frame
	MaxViolations int
	SplitCap      int // max width of an interval that may be concretised by enumeration
	Deadline      time.Time
}

type exec struct {
	trace     []traceEntry
	pos       int
	replayLen int
	solver    *smt.Solver
	stats     Stats
	lim       Limits

	// per-path state
	instrs   int64
	observe  []string
	obsTerms [][]obsItem
	reached  []string
	nondets  []nondetInfo
	ndIndex  map[string]int
	knownOn  string // active known-finding fence id

	unknownViol int
	opaqueQ     int
	violations  []Violation
	witnesses   []Witness
	undecided   []string // reasons
	wantWit     int
	knownIDs    map[string]bool
}

type obsItem struct {
	isBytes bool
	cells   []value
	isTerm  bool
	t       *sym.Term
	k       int // BasicKind
	s       string
}

type nondetInfo struct {
	name   string
	smt    string
	t      *sym.Term
	lo, hi int64
	k      int
}

func (e *exec) live() bool { return e.pos >= e.replayLen }

// assertHere asserts t at the current solver level unless we are replaying a
// prefix whose assertions are still on the solver's stack.
func (e *exec) assertHere(t *sym.Term) {
	if t.IsTrue() {
		return
	}
	if e.pos < e.replayLen {
		return
	}
	e.solver.Assert(t)
}

// branch decides a symbolic condition, forking the exploration if both outcomes are feasible.
func (fr *frame) branch(cond *sym.Term) bool {
	if cond.IsTrue() {
		return true
	}
	if cond.IsFalse() {
		return false
	}
	if fr.guard != nil {
		panic(unsupported("branch inside if-converted region"))
	}
	e := fr.i.ex
	c := fr.i.ctx
	if e.pos < len(e.trace) {
		ent := &e.trace[e.pos]
		if ent.kind != eBranch {
			panic(fmt.Sprintf("gosym: trace desync at %d: want branch have %d", e.pos, ent.kind))
		}
		flipped := e.pos == e.replayLen-1
		e.pos++
		val := ent.alts[ent.chosen] == 1
		if flipped && ent.nalt > 1 {
			ent.levelBefore = e.solver.Level()
			e.solver.Push()
			if val {
				e.solver.Assert(cond)
			} else {
				e.solver.Assert(c.Not(cond))
			}
			ent.asserted = true
		}
		return val
	}
	// new decision
	e.pos++
	e.replayLen = e.pos
	rt := e.solver.CheckWith(cond)
	var rf smt.Result
	if rt == smt.Unsat {
		rf = smt.Sat // path is feasible, so the other side must be
	} else {
		rf = e.solver.CheckWith(c.Not(cond))
	}
	ent := traceEntry{kind: eBranch}
	switch {
	case rt != smt.Unsat && rf != smt.Unsat:
		ent.alts = []uint64{1, 0}
		ent.nalt = 2
		ent.levelBefore = e.solver.Level()
		e.solver.Push()
		e.solver.Assert(cond)
		ent.asserted = true
	case rt != smt.Unsat:
		ent.alts = []uint64{1}
		ent.nalt = 1
	case rf != smt.Unsat:
		ent.alts = []uint64{0}
		ent.nalt = 1
	default:
		// both unsat: the path condition itself is infeasible (can only happen after an
		// unknown feasibility answer earlier); end the path quietly.
		e.trace = append(e.trace, traceEntry{kind: eBranch, alts: []uint64{0}, nalt: 1})
		panic(pathEnd{kind: "assume", msg: "infeasible path"})
	}
	e.trace = append(e.trace, ent)
	if len(e.trace) > e.stats.MaxDepth {
		e.stats.MaxDepth = len(e.trace)
	}
	return ent.alts[0] == 1
}

// assume constrains the path; ends it if the assumption is infeasible.
func (fr *frame) assume(cond *sym.Term) {
	if cond.IsTrue() {
		return
	}
	if cond.IsFalse() {
		panic(pathEnd{kind: "assume"})
	}
	e := fr.i.ex
	if e.pos < len(e.trace) {
		ent := &e.trace[e.pos]
		if ent.kind != eAssume {
			panic(fmt.Sprintf("gosym: trace desync at %d: want assume have %d", e.pos, ent.kind))
		}
		e.pos++
		if ent.nalt == 0 {
			panic(pathEnd{kind: "assume"})
		}
		return
	}
	e.pos++
	e.replayLen = e.pos
	r := e.solver.CheckWith(cond)
	if r == smt.Unsat {
		e.trace = append(e.trace, traceEntry{kind: eAssume, nalt: 0})
		panic(pathEnd{kind: "assume"})
	}
	ent := traceEntry{kind: eAssume, nalt: 1, levelBefore: e.solver.Level(), asserted: true}
	e.solver.Push()
	e.solver.Assert(cond)
	e.trace = append(e.trace, ent)
}

// choose picks one of the feasible concrete values of t (all of them are explored).
// If vals is nil the feasible values are enumerated with the solver.
func (fr *frame) choose(t *sym.Term, what string) uint64 {
	if t.IsConst() {
		return t.Val
	}
	if fr.guard != nil {
		// cannot case-split while both arms of a region are being evaluated: give the region
		// up and branch normally at its If
		panic(regionAbort{"concretisation inside if-converted region"})
	}
	e := fr.i.ex
	c := fr.i.ctx
	eqv := func(v uint64) *sym.Term {
		if t.Sort == sym.SBV {
			return c.Eq(t, c.BV(v, t.W))
		}
		if t.Sort == sym.SBool {
			return c.Eq(t, c.Bool(v == 1))
		}
		return c.Eq(t, c.Int(int64(v)))
	}
	if e.pos < len(e.trace) {
		ent := &e.trace[e.pos]
		if ent.kind != eChoice {
			panic(fmt.Sprintf("gosym: trace desync at %d: want choice have %d", e.pos, ent.kind))
		}
		flipped := e.pos == e.replayLen-1
		e.pos++
		v := ent.alts[ent.chosen]
		if flipped && ent.nalt > 1 {
			ent.levelBefore = e.solver.Level()
			e.solver.Push()
			e.solver.Assert(eqv(v))
			ent.asserted = true
		}
		return v
	}
	e.pos++
	e.replayLen = e.pos
	// enumerate feasible values
	var vals []uint64
	lvl := e.solver.Level()
	e.solver.Push()
	e.solver.Define(t)
	cap := e.lim.SplitCap
	if cap == 0 {
		cap = 64
	}
	for {
		r := e.solver.Check()
		if r == smt.Unsat {
			break
		}
		if r == smt.Unknown {
			e.solver.PopTo(lvl)
			panic(pathEnd{kind: "unknown", msg: "solver unknown while enumerating values of " + what})
		}
		// ask for the value of t: define it as a fresh var
		m, err := e.solver.ModelOf(t)
		if err != nil {
			e.solver.PopTo(lvl)
			panic(pathEnd{kind: "unknown", msg: "model: " + err.Error()})
		}
		vals = append(vals, m)
		if len(vals) > cap {
			e.solver.PopTo(lvl)
			panic(pathEnd{kind: "unsupported", msg: fmt.Sprintf("concretisation of %s: more than %d feasible values", what, cap)})
		}
		e.solver.Assert(c.Not(eqv(m)))
	}
	e.solver.PopTo(lvl)
	if len(vals) == 0 {
		e.trace = append(e.trace, traceEntry{kind: eChoice, alts: []uint64{0}, nalt: 1})
		panic(pathEnd{kind: "assume", msg: "infeasible path"})
	}
	if t.Sort == sym.SInt {
		sort.Slice(vals, func(a, b int) bool { return int64(vals[a]) < int64(vals[b]) })
	} else {
		sort.Slice(vals, func(a, b int) bool { return vals[a] < vals[b] })
	}
	ent := traceEntry{kind: eChoice, alts: vals, nalt: len(vals)}
	if len(vals) > 1 {
		ent.levelBefore = e.solver.Level()
		e.solver.Push()
		e.solver.Assert(eqv(vals[0]))
		ent.asserted = true
	}
	e.trace = append(e.trace, ent)
	return vals[0]
}

// chooseN makes an n-way structural choice (always explored exhaustively, no solver).
func (fr *frame) chooseN(n int) int {
	e := fr.i.ex
	if n <= 1 {
		return 0
	}
	if e.pos < len(e.trace) {
		ent := &e.trace[e.pos]
		if ent.kind != eChoice {
			panic(fmt.Sprintf("gosym: trace desync at %d: want choiceN have %d", e.pos, ent.kind))
		}
		e.pos++
		return int(ent.alts[ent.chosen])
	}
	e.pos++
	e.replayLen = e.pos
	alts := make([]uint64, n)
	for j := range alts {
		alts[j] = uint64(j)
	}
	e.trace = append(e.trace, traceEntry{kind: eChoice, alts: alts, nalt: n})
	return 0
}

// backtrack prepares the next path; returns false when the tree is exhausted.
func (e *exec) backtrack() bool {
	for len(e.trace) > 0 {
		k := len(e.trace) - 1
		ent := &e.trace[k]
		if ent.chosen+1 < ent.nalt {
			ent.chosen++
			if ent.asserted {
				e.solver.PopTo(ent.levelBefore)
				ent.asserted = false
			}
			e.replayLen = k + 1
			return true
		}
		if ent.asserted {
			e.solver.PopTo(ent.levelBefore)
		}
		e.trace = e.trace[:k]
	}
	return false
}

func (e *exec) decisions() []int {
	var d []int
	for _, t := range e.trace {
		d = append(d, t.chosen)
	}
	return d
}

// obligation: `bad` must be unsatisfiable under the current path condition (and
// if-conversion guard); otherwise the run cannot be trusted at this bound.
func (i *interpreter) obligation(fr *frame, bad *sym.Term, what string) {
	if bad.IsFalse() {
		return
	}
	e := i.ex
	if !e.live() {
		return
	}
	q := bad
	if fr != nil && fr.guard != nil {
		q = i.ctx.And(fr.guard, bad)
	}
	e.stats.Obligations++
	r := e.solver.CheckWith(q)
	switch r {
	case smt.Unsat:
		return
	case smt.Sat:
		panic(pathEnd{kind: "overflow", msg: what + " is reachable at " + fr.where()})
	default:
		panic(pathEnd{kind: "unknown", msg: "solver unknown on obligation: " + what})
	}
}

func (fr *frame) where() string {
	if fr == nil || fr.fn == nil {
		return "?"
	}
	return fr.fn.String()
}

// model extracts values for all nondet variables created on this path.
func (e *exec) model() (map[string]int64, map[string]uint64, error) {
	var vars []*sym.Term
	for _, n := range e.nondets {
		vars = append(vars, n.t)
	}
	raw, err := e.solver.Model(vars)
	if err != nil {
		return nil, nil, err
	}
	out := map[string]int64{}
	full := map[string]uint64{}
	for _, n := range e.nondets {
		v, ok := raw[n.smt]
		if !ok {
			v = uint64(n.lo)
			if n.t.Sort == sym.SBV && n.t.W < 64 {
				v &= uint64(1)<<n.t.W - 1
			}
		}
		full[n.smt] = v
		if n.t.Sort == sym.SBV && n.lo < 0 {
			// signed interpretation
			sh := 64 - uint(n.t.W)
			out[n.name] = int64(v<<sh) >> sh
		} else {
			out[n.name] = int64(v)
		}
	}
	return out, full, nil
}

func (e *exec) renderObserve(full map[string]uint64) []string {
	memo := map[*sym.Term]uint64{}
	var out []string
	for _, items := range e.obsTerms {
		var sb strings.Builder
		for j, it := range items {
			if j > 0 {
				sb.WriteByte(' ')
			}
			if it.isBytes {
				b := make([]byte, len(it.cells))
				for k, c := range it.cells {
					switch c := c.(type) {
					case uint8:
						b[k] = c
					case sv:
						b[k] = byte(sym.Eval(c.t, full, memo))
					}
				}
				fmt.Fprintf(&sb, "%q", b)
				continue
			}
			if !it.isTerm {
				sb.WriteString(it.s)
				continue
			}
			v := sym.Eval(it.t, full, memo)
			sb.WriteString(fmtScalar(it.t, it.k, v))
		}
		out = append(out, sb.String())
	}
	return out
}
