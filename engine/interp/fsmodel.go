package interp

// In-memory model of the temporary-file / gob layer used by biogo's morass: directories,
// files holding a list of encoded values and a cursor, "perfect storage" unless a fault is
// injected. Every operation is a fault point; with faults enabled each point asks a symbolic
// boolean (at most `maxFaults` may be true on a path), so the failing operation is
// solver-chosen, not enumerated.

import (
	"fmt"
	"go/types"
	"sort"

	"golang.org/x/tools/go/ssa"
)

type mfile struct {
	name    string
	dir     string
	data    []value
	rpos    int
	closed  bool
	removed bool
}

type fsState struct {
	dirs      map[string]bool
	files     []*mfile
	byPtr     map[*value]*mfile // *os.File, *gob.Encoder, *gob.Decoder objects
	ops       int
	faults    int
	maxFaults int
	faultOps  []string
	nextName  int
}

func newFS(maxFaults int) *fsState {
	return &fsState{dirs: map[string]bool{}, byPtr: map[*value]*mfile{}, maxFaults: maxFaults}
}

func (i *interpreter) lookupType(pkg, name string) types.Type {
	p := i.prog.ImportedPackage(pkg)
	if p == nil {
		panic(unsupported("package not loaded: " + pkg))
	}
	return p.Type(name).Type()
}

func (i *interpreter) globalValue(pkg, name string) value {
	p := i.prog.ImportedPackage(pkg)
	if p == nil {
		panic(unsupported("package not loaded: " + pkg))
	}
	g, ok := p.Members[name].(*ssa.Global)
	if !ok {
		panic(unsupported("global not found: " + pkg + "." + name))
	}
	return *i.globals[g]
}

// fault reports whether this operation fails (a decision when faults are enabled).
func (fr *frame) fsFault(what string) bool {
	fs := fr.i.fs
	fs.ops++
	if fs.faults >= fs.maxFaults {
		return false
	}
	b := fr.i.nondet(fr, fmt.Sprintf("fault_%d", fs.ops), 0, 1, types.Bool)
	if fr.branch(fr.i.truth(b)) {
		fs.faults++
		fs.faultOps = append(fs.faultOps, fmt.Sprintf("%d:%s", fs.ops, what))
		return true
	}
	return false
}

func (fr *frame) fsErr(what string) value {
	return fr.newError("injected I/O fault: " + what)
}

func (fr *frame) newObject(pkg, name string) *value {
	cell := zero(fr.i.lookupType(pkg, name))
	return &cell
}

func (fr *frame) fileOf(p value) *mfile {
	ptr, _ := p.(*value)
	if ptr == nil {
		panic(runtimeError("invalid memory address or nil pointer dereference"))
	}
	f := fr.i.fs.byPtr[ptr]
	if f == nil {
		panic(unsupported("file/encoder object not created by the model"))
	}
	return f
}

func init() {
	nilErr := iface{}
	m := map[string]func(fr *frame, args []value) value{
		"io/ioutil.TempDir": func(fr *frame, args []value) value {
			if fr.fsFault("TempDir") {
				return tuple{"", fr.fsErr("TempDir")}
			}
			fs := fr.i.fs
			fs.nextName++
			name := fmt.Sprintf("/verif-tmp/%s%d", goString(args[1]), fs.nextName)
			fs.dirs[name] = true
			return tuple{name, nilErr}
		},
		"io/ioutil.TempFile": func(fr *frame, args []value) value {
			fs := fr.i.fs
			if fr.fsFault("TempFile") {
				return tuple{(*value)(nil), fr.fsErr("TempFile")}
			}
			dir := goString(args[0])
			if !fs.dirs[dir] {
				return tuple{(*value)(nil), fr.newError("open " + dir + ": no such file or directory")}
			}
			fs.nextName++
			f := &mfile{name: fmt.Sprintf("%s/%s%d", dir, goString(args[1]), fs.nextName), dir: dir}
			fs.files = append(fs.files, f)
			p := fr.newObject("os", "File")
			fs.byPtr[p] = f
			return tuple{p, nilErr}
		},
		"encoding/gob.NewEncoder": func(fr *frame, args []value) value {
			f := fr.fileOf(args[0].(iface).v)
			p := fr.newObject("encoding/gob", "Encoder")
			fr.i.fs.byPtr[p] = f
			return p
		},
		"encoding/gob.NewDecoder": func(fr *frame, args []value) value {
			f := fr.fileOf(args[0].(iface).v)
			p := fr.newObject("encoding/gob", "Decoder")
			fr.i.fs.byPtr[p] = f
			return p
		},
		"encoding/gob.RegisterName": func(fr *frame, args []value) value { return nil },
		"encoding/gob.Register":     func(fr *frame, args []value) value { return nil },
		"(*encoding/gob.Encoder).Encode": func(fr *frame, args []value) value {
			if fr.i.sched != nil {
				fr.i.sched.point(fr)
			}
			f := fr.fileOf(args[0])
			if fr.fsFault("Encode") {
				return fr.fsErr("Encode")
			}
			if f.closed {
				return fr.newError("write " + f.name + ": file already closed")
			}
			e := args[1].(iface)
			v := e.v
			if p, ok := v.(*value); ok && p != nil {
				if _, isPtr := e.t.Underlying().(*types.Pointer); isPtr {
					v = load(e.t.Underlying().(*types.Pointer).Elem(), p)
				}
			}
			if cells, ok := v.([]value); ok {
				fr.raceSlice(cells, false, "a slice element (gob encode)")
			}
			f.data = append(f.data, cloneAgg(v))
			return nilErr
		},
		"(*encoding/gob.Decoder).Decode": func(fr *frame, args []value) value {
			f := fr.fileOf(args[0])
			if fr.fsFault("Decode") {
				// a failed read is either an I/O error or a short read, which gob reports as
				// io.ErrUnexpectedEOF (truncated run file): the flavour is solver-chosen too
				sh := fr.i.nondet(fr, fmt.Sprintf("shortread_%d", fr.i.fs.ops), 0, 1, types.Bool)
				if fr.branch(fr.i.truth(sh)) {
					return fr.i.globalValue("io", "ErrUnexpectedEOF")
				}
				return fr.fsErr("Decode")
			}
			if f.closed {
				return fr.newError("read " + f.name + ": file already closed")
			}
			if f.rpos >= len(f.data) {
				return fr.i.globalValue("io", "EOF")
			}
			e := args[1].(iface)
			p := e.v.(*value)
			fr.raceAccess(e.t.Underlying().(*types.Pointer).Elem(), p, true)
			store(e.t.Underlying().(*types.Pointer).Elem(), p, cloneAgg(f.data[f.rpos]))
			f.rpos++
			return nilErr
		},
		"(*os.File).Sync": func(fr *frame, args []value) value {
			if fr.i.sched != nil {
				fr.i.sched.point(fr)
			}
			fr.fileOf(args[0])
			if fr.fsFault("Sync") {
				return fr.fsErr("Sync")
			}
			return nilErr
		},
		"(*os.File).Seek": func(fr *frame, args []value) value {
			f := fr.fileOf(args[0])
			if fr.fsFault("Seek") {
				return tuple{int64(0), fr.fsErr("Seek")}
			}
			if f.closed {
				return tuple{int64(0), fr.newError("seek " + f.name + ": file already closed")}
			}
			if asInt64(args[1]) != 0 || asInt64(args[2]) != 0 {
				panic(unsupported("model Seek: only Seek(0,0)"))
			}
			f.rpos = 0
			return tuple{int64(0), nilErr}
		},
		"(*os.File).Close": func(fr *frame, args []value) value {
			f := fr.fileOf(args[0])
			if fr.fsFault("Close") {
				return fr.fsErr("Close")
			}
			if f.closed {
				return fr.newError("close " + f.name + ": file already closed")
			}
			f.closed = true
			return nilErr
		},
		"(*os.File).Name": func(fr *frame, args []value) value { return fr.fileOf(args[0]).name },
		"os.Remove": func(fr *frame, args []value) value {
			fs := fr.i.fs
			if fr.fsFault("Remove") {
				return fr.fsErr("Remove")
			}
			name := goString(args[0])
			for _, f := range fs.files {
				if f.name == name && !f.removed {
					f.removed = true
					return nilErr
				}
			}
			return fr.newError("remove " + name + ": no such file or directory")
		},
		"os.RemoveAll": func(fr *frame, args []value) value {
			fs := fr.i.fs
			if fr.fsFault("RemoveAll") {
				return fr.fsErr("RemoveAll")
			}
			dir := goString(args[0])
			delete(fs.dirs, dir)
			for _, f := range fs.files {
				if f.dir == dir {
					f.removed = true
				}
			}
			return nilErr
		},
		// harness-side inspection of the model file system
		"verifFSDirExists": func(fr *frame, args []value) value { return fr.i.fs.dirs[goString(args[0])] },
		"verifFSFiles": func(fr *frame, args []value) value {
			n := 0
			for _, f := range fr.i.fs.files {
				if f.dir == goString(args[0]) && !f.removed {
					n++
				}
			}
			return n
		},
		"verifFSFaulted": func(fr *frame, args []value) value { return fr.i.fs.faults > 0 },
		"verifFSOps":     func(fr *frame, args []value) value { return fr.i.fs.ops },
	}
	keys := make([]string, 0, len(m))
	for k := range m {
		keys = append(keys, k)
	}
	sort.Strings(keys)
	for _, k := range keys {
		fsIntrinsics[k] = m[k]
	}
}

var fsIntrinsics = map[string]func(fr *frame, args []value) value{}
