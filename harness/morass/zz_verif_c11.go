package morass

// C11 — the external sort yields the sorted multiset of its input for every usage history.
// C13 — I/O failures are never hidden; no temporary files are left behind.
//
// Under gosym the temp-file/gob layer is the engine's in-memory model (symbolic single fault);
// natively the real OS is used through pass-through wrappers that inject the same fault at the
// same operation index (vcheck rewrites the call sites of morass.go for the native replay only).

import (
	"encoding/gob"
	"errors"
	"io"
	"io/ioutil"
	"os"
)

type verifKey int

func (a verifKey) Less(b interface{}) bool { return a < b.(verifKey) }

type verifRec struct{ K, V int }

func (a verifRec) Less(b interface{}) bool { return a.K < b.(verifRec).K }

// ---- native side of the file-system model ---------------------------------------------

var verifOps int
var verifFaultHit bool

func verifFaultNow(what string) error {
	verifOps++
	if verifCur != nil && verifCur.Values["fault_"+verifItoa(verifOps)] == 1 {
		verifFaultHit = true
		return errors.New("injected I/O fault: " + what)
	}
	return nil
}

func verifItoa(n int) string {
	if n == 0 {
		return "0"
	}
	s := ""
	for n > 0 {
		s = string(rune('0'+n%10)) + s
		n /= 10
	}
	return s
}

func verifTempDir(dir, prefix string) (string, error) {
	if err := verifFaultNow("TempDir"); err != nil {
		return "", err
	}
	return ioutil.TempDir(dir, prefix)
}
func verifTempFile(dir, prefix string) (*os.File, error) {
	if err := verifFaultNow("TempFile"); err != nil {
		return nil, err
	}
	return ioutil.TempFile(dir, prefix)
}
func verifEncode(enc *gob.Encoder, e interface{}) error {
	if err := verifFaultNow("Encode"); err != nil {
		return err
	}
	return enc.Encode(e)
}
func verifDecode(dec *gob.Decoder, e interface{}) error {
	if err := verifFaultNow("Decode"); err != nil {
		if verifCur.Values["shortread_"+verifItoa(verifOps)] == 1 {
			return io.ErrUnexpectedEOF // a truncated run file, as gob reports it
		}
		return err
	}
	return dec.Decode(e)
}
func verifSync(f *os.File) error {
	if err := verifFaultNow("Sync"); err != nil {
		return err
	}
	return f.Sync()
}
func verifSeek(f *os.File, off int64, whence int) (int64, error) {
	if err := verifFaultNow("Seek"); err != nil {
		return 0, err
	}
	return f.Seek(off, whence)
}
func verifClose(f *os.File) error {
	if err := verifFaultNow("Close"); err != nil {
		return err
	}
	return f.Close()
}
func verifRemove(name string) error {
	if err := verifFaultNow("Remove"); err != nil {
		return err
	}
	return os.Remove(name)
}
func verifRemoveAll(name string) error {
	if err := verifFaultNow("RemoveAll"); err != nil {
		return err
	}
	return os.RemoveAll(name)
}

// inspection (intercepted by the engine; these are the native implementations)
func verifFSDirExists(dir string) bool {
	_, err := os.Stat(dir)
	return err == nil
}
func verifFSFiles(dir string) int {
	es, err := ioutil.ReadDir(dir)
	if err != nil {
		return 0
	}
	return len(es)
}
func verifFSFaulted() bool { return verifFaultHit }

// ---- harness ------------------------------------------------------------------------------

type verifElem struct{ k, v int }

// verifMkElem: the i-th value of a cycle. With symmask < 0 every key is symbolic in [0,3]; else
// only the values whose bit is set in symmask are symbolic (in [0,12]) and the others follow a
// fixed scrambled pattern, which allows cycles of 10-20 values over many run files.
func verifMkElem(name string, rec bool, i int) (LessInterface, verifElem) {
	var k int
	switch mask := verifParam("symmask"); {
	case mask < 0:
		k = verifInt("k"+name, 0, 3)
	case mask&(1<<uint(i)) != 0:
		k = verifInt("k"+name, 0, 12)
	default:
		k = (i*7 + 3) % 11
	}
	if rec {
		v := verifInt("v"+name, 0, 1)
		return verifRec{k, v}, verifElem{k, v}
	}
	return verifKey(k), verifElem{k, 0}
}

func verifPull(m *Morass, rec bool) (verifElem, error) {
	if rec {
		var x verifRec
		err := m.Pull(&x)
		return verifElem{x.K, x.V}, err
	}
	var x verifKey
	err := m.Pull(&x)
	return verifElem{int(x), 0}, err
}

// VerifC11_History: cycles of push / finalise / pull / clear on one sorter.
// With param faults=1 the same history checks C13 (a single solver-chosen I/O fault).
func VerifC11_History() {
	verifOps, verifFaultHit = 0, false
	chunk, cycles, rec := verifParam("chunk"), verifParam("cycles"), verifParam("rec") == 1
	faults := verifParam("faults") == 1
	var proto interface{} = verifKey(0)
	if rec {
		proto = verifRec{}
	}
	m, err := New(proto, "verif", "", chunk, false)
	if err != nil {
		verifAssert(faults, "new-succeeds-without-faults")
		verifReach("end")
		return
	}
	dir := m.dir
	sawError := false
	intact := true   // everything delivered so far equals what was pushed
	allClear := true // AutoClear was set in every cycle so far
	for c := 0; c < cycles; c++ {
		if faults && sawError {
			break // C13 is about the error being reported; what a caller does after it is not specified
		}
		cs := string(rune('a' + c))
		n := verifParam("n" + string(rune('0'+c)))
		m.AutoClear = verifBool("autoclear" + cs)
		if !m.AutoClear {
			allClear = false
		}
		var pushed []verifElem
		for i := 0; i < n; i++ {
			e, el := verifMkElem(cs+string(rune('0'+i)), rec, i)
			if faults && sawError {
				break
			}
			perr := m.Push(e)
			if perr != nil {
				sawError = true
			}
			if !faults {
				verifAssert(perr == nil, "push-succeeds")
			}
			pushed = append(pushed, el)
		}
		if !faults {
			verifAssert(m.Len() == int64(n) && m.Pos() == int64(n), "len-and-pos-count-pushes")
		}
		if faults && sawError {
			break
		}
		ferr := m.Finalise()
		if ferr != nil {
			sawError = true
		}
		if faults && sawError {
			break
		}
		if !faults {
			verifAssert(ferr == nil, "finalise-succeeds")
			verifAssert(m.Len() == int64(n) && m.Pos() == 0, "finalise-resets-pos")
		}
		// drain: 0 none, 1 one value, 2 to exhaustion
		drain := verifChoice("drain"+cs, 3)
		want := 0
		switch drain {
		case 1:
			want = 1
		case 2:
			want = n + 1
		}
		var pulled []verifElem
		eof := false
		for p := 0; p < want && !eof; p++ {
			x, perr := verifPull(m, rec)
			switch {
			case perr == io.EOF:
				eof = true
			case perr != nil:
				sawError = true
				eof = true
				if faults && drain == 2 && allClear {
					// the one fault of this path was this failed read: keep draining to io.EOF
					// (values no longer matter) and look at what is left behind
					for q := 0; q <= n+1; q++ {
						if _, e2 := verifPull(m, rec); e2 == io.EOF {
							verifAssert(verifFSFiles(dir) == 0, "autoclear-leaves-no-run-files-after-a-failed-read")
							break
						}
					}
				}
			default:
				pulled = append(pulled, x)
				if !faults {
					verifAssert(m.Pos() == int64(len(pulled)), "pos-counts-pulls")
				}
			}
		}
		// sorted
		for i := 0; i+1 < len(pulled); i++ {
			if !faults {
				verifAssert(pulled[i].k <= pulled[i+1].k, "pulled-in-non-decreasing-order")
			} else if pulled[i].k > pulled[i+1].k {
				intact = false
			}
		}
		if drain == 2 && !sawError {
			// exactly the multiset pushed in this cycle, then io.EOF
			same := len(pulled) == n
			for _, e := range pushed {
				np, nq := 0, 0
				for _, x := range pushed {
					if x == e {
						np++
					}
				}
				for _, x := range pulled {
					if x == e {
						nq++
					}
				}
				if np != nq {
					same = false
				}
			}
			if !faults {
				verifAssert(eof, "eof-after-exhaustion")
				verifAssert(len(pulled) == n, "pulled-count-equals-pushed-count")
				verifAssert(same, "pulled-multiset-equals-pushed-multiset")
				if allClear {
					verifAssert(verifFSFiles(dir) == 0, "autoclear-leaves-no-run-files")
				}
			} else if !same {
				intact = false
			}
		} else if drain == 1 && n > 0 && !sawError && len(pulled) == 1 {
			// the first value is a minimum of what was pushed
			for _, e := range pushed {
				if !faults {
					verifAssert(pulled[0].k <= e.k, "first-pulled-is-a-minimum")
				} else if pulled[0].k > e.k {
					intact = false
				}
			}
		}
		if c+1 < cycles {
			cerr := m.Clear()
			if cerr != nil {
				sawError = true
			}
			if !faults {
				verifAssert(cerr == nil, "clear-succeeds")
				verifAssert(m.Len() == 0 && m.Pos() == 0, "clear-resets-counters")
			}
		}
	}
	if faults {
		// C13: a failed operation is never hidden
		if verifFSFaulted() {
			verifAssert(sawError || intact, "fault-is-reported-or-data-is-complete")
		} else {
			verifAssert(intact, "no-fault-data-complete")
		}
	}
	// CleanUp may only leave the directory behind if its own removal failed: when the single
	// fault of this path was spent earlier, the directory must be gone whatever CleanUp returns
	faultSpent := faults && verifFSFaulted()
	cerr := m.CleanUp()
	if cerr == nil || faultSpent {
		verifAssert(!verifFSDirExists(dir), "cleanup-removes-the-temporary-directory")
	}
	verifObserve("c11", chunk, cycles, sawError, intact)
	verifReach("end")
}

// VerifC13_AutoClean: draining a sorter that has AutoClean set removes its temporary directory.
func VerifC13_AutoClean() {
	verifOps, verifFaultHit = 0, false
	chunk, n := verifParam("chunk"), verifParam("n0")
	m, err := New(verifKey(0), "verif", "", chunk, false)
	verifAssert(err == nil, "new-succeeds")
	if err != nil {
		return
	}
	dir := m.dir
	m.AutoClean = true
	for i := 0; i < n; i++ {
		verifAssert(m.Push(verifKey(verifInt("k"+string(rune('0'+i)), 0, 3))) == nil, "push-succeeds")
	}
	verifAssert(m.Finalise() == nil, "finalise-succeeds")
	cnt := 0
	for {
		var x verifKey
		err := m.Pull(&x)
		if err != nil {
			verifAssert(err == io.EOF, "drain-ends-with-eof")
			break
		}
		cnt++
		if cnt > n {
			break
		}
	}
	verifAssert(cnt == n, "all-values-delivered")
	verifAssert(!verifFSDirExists(dir), "autoclean-removes-the-temporary-directory-after-drain")
	if verifFSDirExists(dir) {
		os.RemoveAll(dir)
	}
	verifObserve("c13ac", chunk, n, cnt)
	verifReach("end")
}
