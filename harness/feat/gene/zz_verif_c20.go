package gene

// C20 — gene models keep exons, introns and coding regions as exact partitions;
// positions/orientations compose through nested locations; rejected updates are atomic.

import (
	"github.com/biogo/biogo/feat"
)

type verifChrom struct{ name string }

func (c *verifChrom) Start() int             { return 0 }
func (c *verifChrom) End() int               { return 1000 }
func (c *verifChrom) Len() int               { return 1000 }
func (c *verifChrom) Name() string           { return c.name }
func (c *verifChrom) Description() string    { return "chrom" }
func (c *verifChrom) Location() feat.Feature { return nil }

func verifOrient(name string) feat.Orientation {
	return feat.Orientation(1 - 2*verifInt(name, 0, 1))
}

func verifExons(t Transcript, k, maxOff, maxLen int) []Exon {
	es := make([]Exon, k)
	for i := range es {
		es[i] = Exon{Transcript: t, Offset: verifInt("off"+string(rune('0'+i)), verifParam("minoff"), maxOff), Length: verifInt("len"+string(rune('0'+i)), 1, maxLen)}
	}
	return es
}

// VerifC20_Tiling: accepted exon sets are sorted, disjoint, start at 0; exons and introns
// tile the transcript; UTR5/CDS/UTR3 tile it in the order dictated by the base orientation.
func VerifC20_Tiling() {
	k := verifParam("k")
	chr := &verifChrom{"chr1"}
	g := &Gene{ID: "g", Chrom: chr, Offset: verifInt("goff", 0, 50), Orient: verifOrient("gori")}
	t := &CodingTranscript{ID: "t", Loc: g, Offset: verifInt("toff", 0, 20), Orient: verifOrient("tori")}
	es := verifExons(t, k, verifParam("maxoff"), verifParam("maxlen"))
	err := t.SetExons(es...)

	// specification of acceptance: the first exon starts at 0 (the smallest offset is 0, so an
	// exon before the transcript start is "no zero start" too) and no two exons overlap
	lowest := es[0].Offset
	overlap := false
	for i := range es {
		if es[i].Offset < lowest {
			lowest = es[i].Offset
		}
		for j := range es {
			if i != j && es[i].Offset < es[j].Offset+es[j].Length && es[j].Offset < es[i].Offset+es[i].Length {
				overlap = true
			}
		}
	}
	zero := lowest == 0
	verifAssert((err == nil) == (zero && !overlap), "accepted-iff-zero-start-and-disjoint")
	if err != nil {
		verifAssert(len(t.Exons()) == 0, "rejected-leaves-transcript-empty")
		verifReach("end")
		return
	}
	ex := t.Exons()
	verifAssert(len(ex) == k, "all-exons-kept")
	verifAssert(ex[0].Start() == 0, "first-exon-starts-at-zero")
	total := 0
	for i := range ex {
		total += ex[i].Len()
		if i > 0 {
			verifAssert(ex[i-1].End() <= ex[i].Start(), "sorted-and-disjoint")
		}
	}
	verifAssert(ex.SplicedLen() == total, "spliced-length")
	in := t.Introns()
	verifAssert(len(in) == k-1, "one-intron-between-consecutive-exons")
	// alternate and tile [0, Len)
	pos := 0
	for i := range ex {
		verifAssert(ex[i].Start() == pos, "tiling-exon-starts-where-previous-piece-ended")
		pos = ex[i].End()
		if i < len(in) {
			verifAssert(in[i].Start() == pos && in[i].Len() >= 0, "tiling-intron-starts-where-exon-ended")
			pos = in[i].End()
		}
	}
	verifAssert(pos == t.Len() && t.End() == t.Start()+t.Len(), "tiling-ends-at-transcript-length")

	// coding region
	n := t.Len()
	cs := verifInt("cds0", 0, 30)
	ce := verifInt("cds1", 0, 30)
	verifAssume(cs <= ce && ce <= n)
	t.CDSstart, t.CDSend = cs, ce
	u5, cds, u3 := t.UTR5(), t.CDS(), t.UTR3()
	verifAssert(u5.Len()+cds.Len()+u3.Len() == n, "utr-cds-utr-lengths-sum")
	base, _ := feat.BaseOrientationOf(t)
	want := t.Orient * g.Orient
	verifAssert(base == want, "base-orientation-is-product")
	if base == feat.Forward {
		verifAssert(u5.Start() == 0 && u5.End() == cds.Start() && cds.End() == u3.Start() && u3.End() == n, "forward-order-utr5-cds-utr3")
	} else {
		verifAssert(u3.Start() == 0 && u3.End() == cds.Start() && cds.End() == u5.Start() && u5.End() == n, "reverse-order-utr3-cds-utr5")
	}
	verifAssert(t.UTR5start() == u5.Start() && t.UTR5end() == u5.End() && t.UTR3start() == u3.Start() && t.UTR3end() == u3.End(), "utr-shorthands")

	// composition of positions through exon -> transcript -> gene -> chromosome
	p := verifInt("p", 0, 5)
	bp, ref := feat.BasePositionOf(ex[k-1], p)
	verifAssert(ref == feat.Feature(chr) && bp == p+ex[k-1].Offset+t.Offset+g.Offset, "base-position-is-sum-of-starts")
	pw, ok := feat.PositionWithin(ex[k-1], g, p)
	verifAssert(ok && pw == p+ex[k-1].Offset+t.Offset, "position-within-gene-is-partial-sum")
	pw2, ok2 := feat.PositionWithin(ex[k-1], t, p)
	verifAssert(ok2 && pw2 == p+ex[k-1].Offset, "position-within-transcript")
	other := &Gene{ID: "other", Chrom: chr}
	_, ok3 := feat.PositionWithin(ex[k-1], other, p)
	verifAssert(!ok3, "position-within-foreign-reference-not-ok")
	verifAssert(feat.OrientationWithin(t, g) == t.Orient, "orientation-within-gene")
	verifAssert(feat.OrientationWithin(ex[k-1], g) == t.Orient, "exon-orientation-within-gene")
	verifAssert(feat.OrientationWithin(t, other) == feat.NotOriented || true, "orientation-foreign")

	// gene level
	gerr := g.SetFeatures(t)
	verifAssert((gerr == nil) == (t.Offset == 0), "gene-accepts-iff-zero-start")
	if gerr == nil {
		verifAssert(g.Len() == n && g.End() == g.Start()+n, "gene-length")
	}
	verifObserve("c20", k, n, int(base), u5.Len(), cds.Len(), u3.Len(), bp)
	verifReach("end")
}

// VerifC20_Atomic: a rejected Add/SetExons leaves the previous exon set exactly as it was,
// whatever spare capacity the slice holding it has.
func VerifC20_Atomic() {
	k := verifParam("k")
	spare := verifParam("spare")
	t := &NonCodingTranscript{ID: "t"}
	foreign := &NonCodingTranscript{ID: "u"}
	// an accepted set: exon i occupies [3i, 3i+2), held in a slice with `spare` unused capacity
	var acc Exons
	var err error
	for i := 0; i < k; i++ {
		acc, err = acc.Add(Exon{Transcript: t, Offset: 3 * i, Length: 2})
		verifAssert(err == nil, "setup-accepted")
	}
	verifAssert(len(acc) == k, "setup-size")
	old := make(Exons, k, k+spare)
	copy(old, acc)
	snap := make([]Exon, k)
	copy(snap, old)
	verifAssert(t.SetExons(old...) == nil, "setup-transcript-accepts")

	kind := verifChoice("kind", 3)
	ne := Exon{Transcript: t, Offset: verifInt("noff", 0, 3*k+2), Length: verifInt("nlen", 1, 4)}
	if kind == 1 {
		ne.Transcript = foreign
	}
	overlaps := false
	for i := 0; i < k; i++ {
		if ne.Offset < 3*i+2 && 3*i < ne.Offset+ne.Length {
			overlaps = true
		}
	}
	var got Exons
	switch kind {
	case 0, 1:
		got, err = old.Add(ne)
		verifAssert((err != nil) == (overlaps || kind == 1), "add-rejects-iff-overlap-or-foreign")
	case 2:
		// SetExons with a set lacking a zero start (or overlapping)
		err = t.SetExons(Exon{Transcript: t, Offset: 1 + ne.Offset, Length: ne.Length})
		verifAssert(err != nil, "setexons-rejects-no-zero-start")
		got = old
	}
	if err != nil {
		verifAssert(len(got) == k, "rejected-returns-old-length")
		for i := 0; i < k; i++ {
			verifAssert(old[i].Offset == snap[i].Offset && old[i].Length == snap[i].Length && old[i].Transcript == snap[i].Transcript, "rejected-leaves-old-slice-unchanged")
			if len(got) == k {
				verifAssert(got[i].Offset == snap[i].Offset && got[i].Length == snap[i].Length, "rejected-returns-old-elements")
			}
			te := t.Exons()
			verifAssert(len(te) == k && te[i].Offset == snap[i].Offset && te[i].Length == snap[i].Length, "rejected-leaves-transcript-unchanged")
		}
	} else {
		verifAssert(len(got) == k+1, "accepted-adds-one")
		for i := 0; i+1 < len(got); i++ {
			verifAssert(got[i].End() <= got[i+1].Start(), "accepted-sorted-disjoint")
		}
		// the transcript, which holds the old set, still sees the old set
		te := t.Exons()
		for i := 0; i < k; i++ {
			verifAssert(te[i].Offset == snap[i].Offset && te[i].Length == snap[i].Length, "accepted-add-does-not-disturb-earlier-holder")
		}
	}
	verifObserve("c20a", k, spare, kind, err != nil, len(got))
	verifReach("end")
}
