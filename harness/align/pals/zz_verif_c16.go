package pals

// C16 — piles are exactly the overlap-connected components of the added features.

type verifSpec struct {
	loc  int
	s, e int
	f    *Feature
}

func verifPerm(n int) []int {
	// a symbolic permutation of 0..n-1, case-split by the engine
	left := make([]int, n)
	for i := range left {
		left[i] = i
	}
	var out []int
	for len(left) > 0 {
		k := verifChoice("perm"+string(rune('0'+len(left))), len(left))
		out = append(out, left[k])
		left = append(left[:k:k], left[k+1:]...)
	}
	return out
}

// VerifC16_Piles
func VerifC16_Piles() {
	np, nloc := verifParam("pairs"), verifParam("locs")
	maxs, maxl := verifParam("maxstart"), verifParam("maxlen")
	locs := make([]Contig, nloc)
	for i := range locs {
		locs[i] = Contig("c" + string(rune('0'+i)))
	}
	pairs := make([]*Pair, np)
	specs := make([][2]verifSpec, np)
	for i := range pairs {
		var fs [2]*Feature
		for j := 0; j < 2; j++ {
			nm := string(rune('0'+i)) + string(rune('a'+j))
			var l, s, e int
			if i < verifParam("concrete") {
				// the first pairs are fixed (a scrambled but concrete layout); only the remaining
				// pairs are symbolic, which allows more pairs per instance
				l = (i + j) % nloc
				s = (i*3 + j*5) % (maxs + 1)
				e = s + 1 + (i+2*j)%maxl
			} else {
				l = verifChoice("loc"+nm, nloc)
				s = verifInt("s"+nm, 0, maxs)
				e = s + verifInt("l"+nm, verifParam("minlen"), maxl)
			}
			fs[j] = &Feature{ID: "f" + nm, From: s, To: e, Loc: locs[l]}
			specs[i][j] = verifSpec{l, s, e, fs[j]}
		}
		pairs[i] = &Pair{A: fs[0], B: fs[1], Score: i}
		fs[0].Pair, fs[1].Pair = pairs[i], pairs[i]
	}
	p := NewPiler(0)
	var order []int
	if verifParam("concrete") > 0 {
		// with fixed pairs only the position of the symbolic pair(s) in the insertion order varies
		r := verifChoice("rot", np)
		for i := 0; i < np; i++ {
			order = append(order, (i+r)%np)
		}
	} else {
		order = verifPerm(np)
	}
	var added []int
	for _, i := range order {
		// duplicate iff an added pair has the same two (location,start,end) in either orientation
		dup := false
		for _, j := range added {
			same := func(x, y verifSpec) bool { return x.loc == y.loc && x.s == y.s && x.e == y.e }
			if (same(specs[i][0], specs[j][0]) && same(specs[i][1], specs[j][1])) ||
				(same(specs[i][0], specs[j][1]) && same(specs[i][1], specs[j][0])) {
				dup = true
			}
		}
		err := p.Add(pairs[i])
		verifAssert((err != nil) == dup, "add-rejects-exactly-duplicate-pairs")
		if err == nil {
			added = append(added, i)
		}
	}
	// adding an accepted pair again, in either orientation, is rejected
	if len(added) > 0 {
		i := added[0]
		again := &Pair{A: &Feature{ID: "x", From: specs[i][1].s, To: specs[i][1].e, Loc: locs[specs[i][1].loc]},
			B: &Feature{ID: "y", From: specs[i][0].s, To: specs[i][0].e, Loc: locs[specs[i][0].loc]}}
		again.A.Pair, again.B.Pair = again, again
		verifAssert(p.Add(again) != nil, "swapped-duplicate-rejected")
		verifAssert(p.Add(pairs[i]) != nil, "same-pair-twice-rejected")
	}
	piles := p.Piles(nil)

	// specification: nodes are the features of the added pairs
	var nodes []verifSpec
	for _, i := range added {
		nodes = append(nodes, specs[i][0], specs[i][1])
	}
	n := len(nodes)
	rel := make([][]bool, n)
	for a := range rel {
		rel[a] = make([]bool, n)
		for b := range rel[a] {
			x, y := nodes[a], nodes[b]
			rel[a][b] = x.loc == y.loc && x.s <= y.e && y.s <= x.e
		}
	}
	for k := 0; k < n; k++ {
		for a := 0; a < n; a++ {
			for b := 0; b < n; b++ {
				rel[a][b] = rel[a][b] || (rel[a][k] && rel[k][b])
			}
		}
	}
	pileOf := make([]*Pile, n)
	for a, nd := range nodes {
		pl, ok := nd.f.Loc.(*Pile)
		verifAssert(ok, "every-feature-is-assigned-to-a-pile")
		if !ok {
			return
		}
		pileOf[a] = pl
		verifAssert(nd.f.From == nd.s && nd.f.To == nd.e, "feature-coordinates-untouched")
		verifAssert(nd.f.Mate() != nil && nd.f.Mate().Mate() == nd.f && nd.f.Mate().Pair == nd.f.Pair, "mate-link-intact")
		// appears in exactly one pile's image list
		cnt := 0
		for _, q := range piles {
			for _, im := range q.Images {
				if im == nd.f {
					cnt++
					verifAssert(q == pl, "listed-in-its-own-pile")
				}
			}
		}
		verifAssert(cnt == 1, "every-feature-in-exactly-one-pile")
	}
	for a := 0; a < n; a++ {
		// pile interval = union of its members
		lo, hi := nodes[a].s, nodes[a].e
		for b := 0; b < n; b++ {
			verifAssert((pileOf[a] == pileOf[b]) == rel[a][b], "same-pile-iff-chain-of-overlapping-or-abutting-features")
			if rel[a][b] {
				if nodes[b].s < lo {
					lo = nodes[b].s
				}
				if nodes[b].e > hi {
					hi = nodes[b].e
				}
			}
		}
		verifAssert(pileOf[a].From == lo && pileOf[a].To == hi, "pile-interval-is-union-of-members")
		verifAssert(pileOf[a].Loc == Contig("c"+string(rune('0'+nodes[a].loc))), "pile-on-the-members-location")
	}
	// piles on one location are pairwise disjoint
	for x := 0; x < len(piles); x++ {
		for y := x + 1; y < len(piles); y++ {
			if piles[x].Loc == piles[y].Loc {
				verifAssert(piles[x].To < piles[y].From || piles[y].To < piles[x].From, "piles-pairwise-disjoint")
			}
		}
	}
	// repeated call and filtered call
	again := p.Piles(nil)
	verifAssert(len(again) == len(piles), "second-call-same-number-of-piles")
	total := 0
	for _, q := range again {
		total += len(q.Images)
	}
	verifAssert(total == n, "second-call-same-images")
	keep := verifChoice("keep", np)
	filtered := p.Piles(func(fp *Pair) bool { return fp == pairs[keep] })
	ftotal := 0
	for _, q := range filtered {
		for _, im := range q.Images {
			verifAssert(im.Pair == pairs[keep], "filter-keeps-only-selected-pair")
			ftotal++
		}
	}
	isAdded := false
	for _, i := range added {
		if i == keep {
			isAdded = true
		}
	}
	if isAdded {
		verifAssert(ftotal == 2, "filter-keeps-both-images-of-selected-pair")
	}
	verifObserve("c16", np, len(added), len(piles), n)
	verifReach("end")
}
