package multi

// C07 / C05 on row-stored multiple alignments (ragged rows with arbitrary offsets).

import (
	"github.com/biogo/biogo/alphabet"
	"github.com/biogo/biogo/seq"
	"github.com/biogo/biogo/seq/linear"
)

type verifRow struct {
	start int
	l     []alphabet.QLetter
}

type verifRows []verifRow

func (g verifRows) clone() verifRows {
	c := make(verifRows, len(g))
	for i := range g {
		c[i] = verifRow{g[i].start, append([]alphabet.QLetter(nil), g[i].l...)}
	}
	return c
}

func (g verifRows) span() (int, int) {
	lo, hi := 1<<30, -(1 << 30)
	for _, r := range g {
		if r.start < lo {
			lo = r.start
		}
		if r.start+len(r.l) > hi {
			hi = r.start + len(r.l)
		}
	}
	return lo, hi
}

func verifQL(name string, comp alphabet.Complementor, qual bool) alphabet.QLetter {
	l := alphabet.Letter(verifByte(name, 0, 127))
	_, ok := comp.Complement(l)
	verifAssume(ok)
	q := alphabet.QLetter{L: l, Q: seq.DefaultQphred}
	if qual {
		q.Q = alphabet.Qphred(verifByte(name+"q", 0, 60))
	}
	return q
}

func verifMkRow(id string, r verifRow, qual bool, alpha alphabet.Alphabet) seq.Sequence {
	if qual {
		s := linear.NewQSeq(id, append([]alphabet.QLetter(nil), r.l...), alpha, alphabet.Sanger)
		s.Offset = r.start
		return s
	}
	ls := make([]alphabet.Letter, len(r.l))
	for i := range ls {
		ls[i] = r.l[i].L
	}
	s := linear.NewSeq(id, ls, alpha)
	s.Offset = r.start
	return s
}

func verifCheckMulti(m *Multi, g verifRows, qual bool, gap alphabet.Letter, tag string) {
	verifAssert(m.Rows() == len(g), tag+"-rows")
	if m.Rows() != len(g) || len(g) == 0 {
		return
	}
	lo, hi := g.span()
	verifAssert(m.Start() == lo && m.End() == hi && m.Len() == hi-lo, tag+"-span")
	if m.Start() != lo || m.End() != hi {
		return
	}
	for r := range g {
		row := m.Row(r)
		verifAssert(row.Start() == g[r].start && row.Len() == len(g[r].l), tag+"-row-interval")
	}
	for pos := lo; pos < hi; pos++ {
		col := m.Column(pos, true)
		colq := m.ColumnQL(pos, true)
		verifAssert(len(col) == len(g) && len(colq) == len(g), tag+"-filled-column-height")
		if len(col) != len(g) || len(colq) != len(g) {
			return
		}
		covered := 0
		for r := range g {
			k := pos - g[r].start
			if k >= 0 && k < len(g[r].l) {
				covered++
				row := m.Row(r)
				if row.Start() <= pos && pos < row.End() {
					at := row.At(pos)
					verifAssert(at.L == g[r].l[k].L, tag+"-row-view-letter")
					if qual {
						verifAssert(at.Q == g[r].l[k].Q, tag+"-row-view-quality")
					}
				}
				verifAssert(col[r] == g[r].l[k].L && colq[r].L == g[r].l[k].L, tag+"-column-view-letter")
				if qual {
					verifAssert(colq[r].Q == g[r].l[k].Q, tag+"-column-view-quality")
				}
			} else {
				verifAssert(col[r] == gap && colq[r].L == gap, tag+"-gap-stands-in-for-uncovered-row")
			}
		}
		verifAssert(len(m.Column(pos, false)) == covered, tag+"-unfilled-column-height")
	}
}

// VerifC07_Multi: symbolic letters, case-split row layout, symbolic operation string.
func VerifC07_Multi() {
	rows, maxlen, nops := verifParam("rows"), verifParam("maxlen"), verifParam("ops")
	qual := verifParam("qual") == 1
	alpha := alphabet.DNAgapped
	comp := alpha.(alphabet.Complementor)
	gap := alpha.Gap()
	g := make(verifRows, rows)
	var ss []seq.Sequence
	for r := range g {
		rs := string(rune('0' + r))
		g[r].start = verifChoice("off"+rs, 3)
		n := 1 + verifChoice("len"+rs, maxlen)
		for c := 0; c < n; c++ {
			g[r].l = append(g[r].l, verifQL("g"+rs+string(rune('0'+c)), comp, qual))
		}
		ss = append(ss, verifMkRow("r"+rs, g[r], qual, alpha))
	}
	m, err := NewMulti("m", ss, seq.DefaultConsensus)
	verifAssert(err == nil, "constructor-accepts")
	if err != nil {
		return
	}
	verifCheckMulti(m, g, qual, gap, "initial")
	var other *Multi
	var otherG verifRows
	for step := 0; step < nops; step++ {
		st := string(rune('0' + step))
		switch verifChoice("op"+st, 9) {
		case 0: // AppendColumns from caller buffers that are overwritten afterwards
			c1 := make([]alphabet.QLetter, len(g))
			c2 := make([]alphabet.QLetter, len(g))
			for r := range g {
				c1[r] = verifQL("ac"+st+"a"+string(rune('0'+r)), comp, qual)
				c2[r] = verifQL("ac"+st+"b"+string(rune('0'+r)), comp, qual)
			}
			verifAssert(m.AppendColumns(c1, c2) == nil, "appendcolumns-accepts")
			for r := range g {
				g[r].l = append(g[r].l, c1[r], c2[r])
				c1[r], c2[r] = alphabet.QLetter{L: 'n'}, alphabet.QLetter{L: 'n'}
			}
		case 1: // AppendEach with unequal run lengths (row-stored: no padding)
			runs := make([][]alphabet.QLetter, len(g))
			for r := range g {
				n := 1 + (r+step)%2
				for k := 0; k < n; k++ {
					runs[r] = append(runs[r], verifQL("ae"+st+string(rune('0'+r))+string(rune('0'+k)), comp, qual))
				}
			}
			verifAssert(m.AppendEach(runs) == nil, "appendeach-accepts")
			for r := range g {
				g[r].l = append(g[r].l, runs[r]...)
				for k := range runs[r] {
					runs[r][k] = alphabet.QLetter{L: 'n'}
				}
			}
		case 2: // Delete
			if len(g) < 2 {
				continue
			}
			i := verifChoice("del"+st+"of"+string(rune('0'+len(g))), len(g))
			m.Delete(i)
			g = append(g[:i:i], g[i+1:]...)
		case 3: // Add a row
			nr := verifRow{start: verifChoice("addoff"+st, 3)}
			for c := 0; c < 2; c++ {
				nr.l = append(nr.l, verifQL("add"+st+string(rune('0'+c)), comp, qual))
			}
			verifAssert(m.Add(verifMkRow("new", nr, qual, alpha)) == nil, "add-accepts")
			g = append(g, nr)
		case 4: // Flush
			where := []int{seq.Start, seq.End, seq.Start | seq.End}[verifChoice("where"+st, 3)]
			fill := verifQL("fill"+st, comp, false).L // any letter the pairing complements
			lo, hi := g.span()
			m.Flush(where, fill)
			for r := range g {
				if where&seq.Start != 0 && g[r].start > lo {
					pad := make([]alphabet.QLetter, g[r].start-lo)
					for k := range pad {
						pad[k] = alphabet.QLetter{L: fill}
						if !qual {
							pad[k].Q = seq.DefaultQphred
						}
					}
					g[r].l = append(pad, g[r].l...)
					g[r].start = lo
				}
				if where&seq.End != 0 {
					for g[r].start+len(g[r].l) < hi {
						q := alphabet.QLetter{L: fill}
						if !qual {
							q.Q = seq.DefaultQphred
						}
						g[r].l = append(g[r].l, q)
					}
				}
			}
			verifAssert(m.IsFlush(where), "flush-makes-flush")
		case 5: // Truncate / Subseq over a range every row covers
			lo, hi := -(1 << 30), 1<<30
			for _, r := range g {
				if r.start > lo {
					lo = r.start
				}
				if r.start+len(r.l) < hi {
					hi = r.start + len(r.l)
				}
			}
			if hi-lo < 1 {
				continue
			}
			a := lo + verifChoice("ta"+st+"n"+string(rune('0'+hi-lo)), hi-lo)
			b := a + 1 + verifChoice("tb"+st+"n"+string(rune('0'+hi-a)), hi-a)
			ng := make(verifRows, len(g))
			for r := range g {
				ng[r] = verifRow{a, append([]alphabet.QLetter(nil), g[r].l[a-g[r].start:b-g[r].start]...)}
			}
			if verifChoice("sub"+st, 2) == 0 {
				verifAssert(m.Truncate(a, b) == nil, "truncate-accepts-covered-range")
			} else {
				sub, err := m.Subseq(a, b)
				verifAssert(err == nil, "subseq-accepts-covered-range")
				if err != nil {
					return
				}
				other, otherG = m, g.clone()
				m = sub
			}
			g = ng
		case 6: // Clone, keep the original aside, continue on the copy
			other, otherG = m, g.clone()
			m = m.Clone().(*Multi)
		case 7, 8: // RevComp / Reverse: every row mirrored about the alignment's span
			lo, hi := g.span()
			rc := verifChoice("rc"+st, 2) == 0
			if rc {
				m.RevComp()
			} else {
				m.Reverse()
			}
			ng := g.clone()
			for r := range g {
				n := len(g[r].l)
				ng[r].start = lo + hi - (g[r].start + n)
				for c := 0; c < n; c++ {
					x := g[r].l[n-1-c]
					if rc {
						x.L, _ = comp.Complement(x.L)
					}
					ng[r].l[c] = x
				}
			}
			g = ng
		}
		verifCheckMulti(m, g, qual, gap, "after-op")
		if other != nil {
			verifCheckMulti(other, otherG, qual, gap, "clone-is-deep")
		}
	}
	verifObserve("c07m", rows, m.Rows(), m.Start(), m.End())
	verifReach("end")
}
