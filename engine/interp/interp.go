// Copyright 2013 The Go Authors. All rights reserved.
// Use of this source code is governed by a BSD-style
// license that can be found in the LICENSE file.

// Package ssa/interp defines an interpreter for the SSA
// representation of Go programs.
//
// This interpreter is provided as an adjunct for testing the SSA
// construction algorithm.  Its purpose is to provide a minimal
// metacircular implementation of the dynamic semantics of each SSA
// instruction.  It is not, and will never be, a production-quality Go
// interpreter.
//
// The following is a partial list of Go features that are currently
// unsupported or incomplete in the interpreter.
//
// * Unsafe operations, including all uses of unsafe.Pointer, are
// impossible to support given the "boxed" value representation we
// have chosen.
//
// * The reflect package is only partially implemented.
//
// * The "testing" package is no longer supported because it
// depends on low-level details that change too often.
//
// * "sync/atomic" operations are not atomic due to the "boxed" value
// representation: it is not possible to read, modify and write an
// interface value atomically. As a consequence, Mutexes are currently
// broken.
//
// * recover is only partially implemented.  Also, the interpreter
// makes no attempt to distinguish target panics from interpreter
// crashes.
//
// * the sizes of the int, uint and uintptr types in the target
// program are assumed to be the same as those of the interpreter
// itself.
//
// * all values occupy space, even those of types defined by the spec
// to have zero size, e.g. struct{}.  This can cause asymptotic
// performance degradation.
//
// * os.Exit is implemented using panic, causing deferred functions to
// run.
package interp

import (
	"fmt"
	"go/token"
	"go/types"
	"log"
	"os"
	"runtime"
	"slices"
	"strings"
	_ "unsafe"

	"golang.org/x/tools/go/ssa"

	"verif/engine/sym"
)

type continuation int

const (
	kNext continuation = iota
	kReturn
	kJump
)

// Mode is a bitmask of options affecting the interpreter.
type Mode uint

const (
	DisableRecover Mode = 1 << iota // Disable recover() in target programs; show interpreter crash instead.
	EnableTracing                   // Print a trace of all instructions as they are interpreted.
)

var debugPanics = os.Getenv("GOSYM_PANICS") != ""

type methodSet map[string]*ssa.Function

// State shared between all interpreted goroutines.
type interpreter struct {
	osArgs             []value                // the value of os.Args
	prog               *ssa.Program           // the SSA program
	globals            map[*ssa.Global]*value // addresses of global variables (immutable)
	mode               Mode                   // interpreter options
	reflectPackage     *ssa.Package           // the fake reflect package
	errorMethods       methodSet              // the method set of reflect.error, which implements the error interface.
	rtypeMethods       methodSet              // the method set of rtype, which implements the reflect.Type interface.
	runtimeErrorString types.Type             // the runtime.errorString type
	sizes              types.Sizes            // the effective type-sizing function
	goroutines         int32                  // atomically updated

	// symbolic execution state
	ctx        *sym.Ctx
	math       bool // integer mode: SMT Int with overflow obligations (else bit-vectors)
	ex         *exec
	params     map[string]int
	initDone   map[*ssa.Package]bool
	initAllow  func(pkg *ssa.Package) bool
	inInit     bool
	pdom       map[*ssa.Function]*pdomInfo
	pure       map[*ssa.Function]int8
	sched      *scheduler
	models     map[string]*ssa.Function // replacement table: callee name -> model function
	gstate     *gstate                  // current goroutine
	regions    map[*ssa.If]*regionInfo
	onces      map[*value]bool
	noIfConv   bool
	floatSplit bool // convert symbolic ints to floats by case split instead of an opaque float
	curFrame   *frame
	fs         *fsState
}

// stack renders the interpreted call stack at the point of the last call entry.
func (i *interpreter) stack() string {
	var sb strings.Builder
	for fr := i.curFrame; fr != nil; fr = fr.caller {
		blk := ""
		if fr.block != nil {
			blk = fr.block.String()
		}
		fmt.Fprintf(&sb, "  %s (block %s)\n", fr.fn, blk)
	}
	return sb.String()
}

type deferred struct {
	fn    value
	args  []value
	instr *ssa.Defer
	tail  *deferred
}

type frame struct {
	i                *interpreter
	caller           *frame
	fn               *ssa.Function
	block, prevBlock *ssa.BasicBlock
	env              map[ssa.Value]value // dynamic values of SSA variables
	locals           []value
	defers           *deferred
	result           value
	panicking        bool
	panic            interface{}
	phitemps         []value   // temporaries for parallel phi assignment
	guard            *sym.Term // non-nil while executing an if-converted region
	visits           map[*ssa.BasicBlock]int
	skipPhis         bool
	g                *gstate
	cur              ssa.Instruction // instruction being executed (diagnostics)
}

func (fr *frame) curInstrPos() token.Pos {
	if fr.cur == nil {
		return token.NoPos
	}
	if p := fr.cur.Pos(); p.IsValid() {
		return p
	}
	// instructions without a position of their own: fall back to the nearest one in the block
	if b := fr.cur.Block(); b != nil {
		for _, in := range b.Instrs {
			if p := in.Pos(); p.IsValid() {
				return p
			}
		}
	}
	return token.NoPos
}

func (fr *frame) get(key ssa.Value) value {
	switch key := key.(type) {
	case nil:
		// Hack; simplifies handling of optional attributes
		// such as ssa.Slice.{Low,High}.
		return nil
	case *ssa.Function, *ssa.Builtin:
		return key
	case *ssa.Const:
		return constValue(key)
	case *ssa.Global:
		if r, ok := fr.i.globals[key]; ok {
			return r
		}
	}
	if r, ok := fr.env[key]; ok {
		return r
	}
	panic(fmt.Sprintf("get: no value for %T: %v", key, key.Name()))
}

// runDefer runs a deferred call d.
// It always returns normally, but may set or clear fr.panic.
func (fr *frame) runDefer(d *deferred) {
	if fr.i.mode&EnableTracing != 0 {
		fmt.Fprintf(os.Stderr, "%s: invoking deferred function call\n",
			fr.i.prog.Fset.Position(d.instr.Pos()))
	}
	var ok bool
	defer func() {
		if !ok {
			// Deferred call created a new state of panic.
			p := recover()
			switch p.(type) {
			case pathEnd, unsupportedErr, goroutineKill, regionAbort:
				panic(p)
			}
			fr.panicking = true
			fr.panic = p
		}
	}()
	call(fr.i, fr, d.instr.Pos(), d.fn, d.args)
	ok = true
}

// runDefers executes fr's deferred function calls in LIFO order.
//
// On entry, fr.panicking indicates a state of panic; if
// true, fr.panic contains the panic value.
//
// On completion, if a deferred call started a panic, or if no
// deferred call recovered from a previous state of panic, then
// runDefers itself panics after the last deferred call has run.
//
// If there was no initial state of panic, or it was recovered from,
// runDefers returns normally.
func (fr *frame) runDefers() {
	for d := fr.defers; d != nil; d = d.tail {
		fr.runDefer(d)
	}
	fr.defers = nil
	if fr.panicking {
		panic(fr.panic) // new panic, or still panicking
	}
}

// lookupMethod returns the method set for type typ, which may be one
// of the interpreter's fake types.
func lookupMethod(i *interpreter, typ types.Type, meth *types.Func) *ssa.Function {
	switch typ {
	case rtypeType:
		return i.rtypeMethods[meth.Id()]
	case errorType:
		return i.errorMethods[meth.Id()]
	}
	return i.prog.LookupMethod(typ, meth.Pkg(), meth.Name())
}

// visitInstr interprets a single ssa.Instruction within the activation
// record frame.  It returns a continuation value indicating where to
// read the next instruction from.
func visitInstr(fr *frame, instr ssa.Instruction) continuation {
	switch instr := instr.(type) {
	case *ssa.DebugRef:
		// no-op

	case *ssa.UnOp:
		fr.env[instr] = fr.unop(instr, fr.get(instr.X))

	case *ssa.BinOp:
		fr.env[instr] = fr.binop(instr.Op, instr.X.Type(), fr.get(instr.X), fr.get(instr.Y))

	case *ssa.Call:
		fn, args := prepareCall(fr, &instr.Call)
		fr.env[instr] = call(fr.i, fr, instr.Pos(), fn, args)

	case *ssa.ChangeInterface:
		fr.env[instr] = fr.get(instr.X)

	case *ssa.ChangeType:
		fr.env[instr] = fr.get(instr.X) // (can't fail)

	case *ssa.Convert:
		fr.env[instr] = fr.conv(instr.Type(), instr.X.Type(), fr.get(instr.X))

	case *ssa.SliceToArrayPointer:
		fr.env[instr] = sliceToArrayPointer(instr.Type(), instr.X.Type(), fr.get(instr.X))

	case *ssa.MakeInterface:
		fr.env[instr] = iface{t: instr.X.Type(), v: fr.get(instr.X)}

	case *ssa.Extract:
		fr.env[instr] = fr.get(instr.Tuple).(tuple)[instr.Index]

	case *ssa.Slice:
		fr.env[instr] = slice(fr.get(instr.X), fr.conc(fr.get(instr.Low), "slice low"), fr.conc(fr.get(instr.High), "slice high"), fr.conc(fr.get(instr.Max), "slice max"))

	case *ssa.Return:
		switch len(instr.Results) {
		case 0:
		case 1:
			fr.result = fr.get(instr.Results[0])
		default:
			var res []value
			for _, r := range instr.Results {
				res = append(res, fr.get(r))
			}
			fr.result = tuple(res)
		}
		fr.block = nil
		return kReturn

	case *ssa.RunDefers:
		fr.runDefers()

	case *ssa.Panic:
		if x, ok := fr.get(instr.X).(iface); ok {
			if m, ok := x.v.(string); ok && strings.HasPrefix(m, "zz_verifmodel: ") {
				// an environment model declining an input it does not cover
				panic(unsupported(m))
			}
		}
		panic(targetPanic{fr.get(instr.X)})

	case *ssa.Send:
		fr.chanSend(fr.get(instr.Chan), fr.get(instr.X))

	case *ssa.Store:
		fr.storePtr(mustDeref(instr.Addr.Type()), fr.get(instr.Addr), fr.get(instr.Val))

	case *ssa.If:
		succ := 1
		switch c := fr.get(instr.Cond).(type) {
		case bool:
			if c {
				succ = 0
			}
		case sv:
			if k, ok := fr.ifConvert(instr, c.t); ok {
				return k
			}
			if fr.branch(c.t) {
				succ = 0
			}
		default:
			panic(fmt.Sprintf("If: condition %T", c))
		}
		fr.prevBlock, fr.block = fr.block, fr.block.Succs[succ]
		return kJump

	case *ssa.Jump:
		fr.prevBlock, fr.block = fr.block, fr.block.Succs[0]
		return kJump

	case *ssa.Defer:
		fn, args := prepareCall(fr, &instr.Call)
		defers := &fr.defers
		if into := fr.get(instr.DeferStack); into != nil {
			defers = into.(**deferred)
		}
		*defers = &deferred{
			fn:    fn,
			args:  args,
			instr: instr,
			tail:  *defers,
		}

	case *ssa.Go:
		fn, args := prepareCall(fr, &instr.Call)
		fr.goStmt(instr, fn, args)

	case *ssa.MakeChan:
		fr.env[instr] = fr.makeChan(asInt64(fr.conc(fr.get(instr.Size), "chan size")))

	case *ssa.Alloc:
		var addr *value
		if instr.Heap {
			// new
			addr = new(value)
			fr.env[instr] = addr
		} else {
			// local
			addr = fr.env[instr].(*value)
		}
		*addr = zero(mustDeref(instr.Type()))

	case *ssa.MakeSlice:
		n := asInt64(fr.conc(fr.get(instr.Len), "make len"))
		cp := asInt64(fr.conc(fr.get(instr.Cap), "make cap"))
		if n < 0 || n > 1<<28 {
			panic(runtimeError("makeslice: len out of range"))
		}
		if cp < n || cp > 1<<28 {
			panic(runtimeError("makeslice: cap out of range"))
		}
		slice := make([]value, cp)
		tElt := instr.Type().Underlying().(*types.Slice).Elem()
		for i := range slice {
			slice[i] = zero(tElt)
		}
		fr.env[instr] = slice[:n]

	case *ssa.MakeMap:
		var reserve int64
		if instr.Reserve != nil {
			reserve = asInt64(fr.get(instr.Reserve))
		}
		if !fitsInt(reserve, fr.i.sizes) {
			panic(fmt.Sprintf("ssa.MakeMap.Reserve value %d does not fit in int", reserve))
		}
		fr.env[instr] = makeMap(instr.Type().Underlying().(*types.Map).Key(), reserve)

	case *ssa.Range:
		if m, ok := fr.get(instr.X).(*omap); ok && m != nil {
			fr.raceObj(m, false, "a map (range)")
		}
		fr.env[instr] = fr.rangeIter(fr.get(instr.X), instr.X.Type())

	case *ssa.Next:
		fr.env[instr] = fr.get(instr.Iter).(iter).next()

	case *ssa.FieldAddr:
		p := fr.get(instr.X).(*value)
		if p == nil {
			panic(runtimeError("invalid memory address or nil pointer dereference"))
		}
		fr.env[instr] = &(*p).(structure)[instr.Field]

	case *ssa.Field:
		fr.env[instr] = fr.get(instr.X).(structure)[instr.Field]

	case *ssa.IndexAddr:
		x := fr.get(instr.X)
		idx := fr.get(instr.Index)
		var cells []value
		switch x := x.(type) {
		case []value:
			cells = x
		case *value: // *array
			if x == nil {
				panic(runtimeError("invalid memory address or nil pointer dereference"))
			}
			cells = (*x).(array)
		default:
			panic(fmt.Sprintf("unexpected x type in IndexAddr: %T", x))
		}
		fr.env[instr] = fr.indexAddr(cells, idx, mustDeref(instr.Type()))

	case *ssa.Index:
		x := fr.get(instr.X)
		idx := fr.get(instr.Index)
		fr.env[instr] = fr.indexVal(x, idx)

	case *ssa.Lookup:
		if m, ok := fr.get(instr.X).(*omap); ok && m != nil {
			fr.raceObj(m, false, "a map (lookup)")
		}
		fr.env[instr] = fr.lookup(instr, fr.get(instr.X), fr.get(instr.Index))

	case *ssa.MapUpdate:
		m := fr.get(instr.Map).(*omap)
		if m == nil {
			panic(runtimeError("assignment to entry in nil map"))
		}
		fr.raceObj(m, true, "a map (update)")
		fr.mapUpdate(m, fr.get(instr.Key), fr.get(instr.Value))

	case *ssa.TypeAssert:
		fr.env[instr] = typeAssert(fr.i, instr, fr.get(instr.X).(iface))

	case *ssa.MakeClosure:
		var bindings []value
		for _, binding := range instr.Bindings {
			bindings = append(bindings, fr.get(binding))
		}
		fr.env[instr] = &closure{instr.Fn.(*ssa.Function), bindings}

	case *ssa.Phi:
		log.Fatal("unreachable") // phis are processed at block entry

	case *ssa.Select:
		fr.env[instr] = fr.selectStmt(instr)

	default:
		panic(fmt.Sprintf("unexpected instruction: %T", instr))
	}

	// if val, ok := instr.(ssa.Value); ok {
	// 	fmt.Println(toString(fr.env[val])) // debugging
	// }

	return kNext
}

// prepareCall determines the function value and argument values for a
// function call in a Call, Go or Defer instruction, performing
// interface method lookup if needed.
func prepareCall(fr *frame, call *ssa.CallCommon) (fn value, args []value) {
	v := fr.get(call.Value)
	if call.Method == nil {
		// Function call.
		fn = v
	} else {
		// Interface method invocation.
		recv := v.(iface)
		if recv.t == nil {
			panic(runtimeError("invalid memory address or nil pointer dereference (method invoked on nil interface)"))
		}
		if f := lookupMethod(fr.i, recv.t, call.Method); f == nil {
			// Unreachable in well-typed programs.
			panic(fmt.Sprintf("method set for dynamic type %v does not contain %s", recv.t, call.Method))
		} else {
			fn = f
		}
		args = append(args, recv.v)
	}
	for _, arg := range call.Args {
		args = append(args, fr.get(arg))
	}
	return
}

// call interprets a call to a function (function, builtin or closure)
// fn with arguments args, returning its result.
// callpos is the position of the callsite.
func call(i *interpreter, caller *frame, callpos token.Pos, fn value, args []value) value {
	switch fn := fn.(type) {
	case *ssa.Function:
		if fn == nil {
			panic(runtimeError("invalid memory address or nil pointer dereference (call of nil function)"))
		}
		return callSSA(i, caller, callpos, fn, args, nil)
	case *closure:
		return callSSA(i, caller, callpos, fn.Fn, args, fn.Env)
	case *ssa.Builtin:
		return callBuiltin(caller, callpos, fn, args)
	case hostFn:
		if caller != nil && caller.guard != nil {
			panic(regionAbort{"host function called under a guard"})
		}
		return fn(caller, args)
	}
	panic(fmt.Sprintf("cannot call %T", fn))
}

func loc(fset *token.FileSet, pos token.Pos) string {
	if pos == token.NoPos {
		return ""
	}
	return " at " + fset.Position(pos).String()
}

// callSSA interprets a call to function fn with arguments args,
// and lexical environment env, returning its result.
// callpos is the position of the callsite.
func callSSA(i *interpreter, caller *frame, callpos token.Pos, fn *ssa.Function, args []value, env []value) value {
	if i.mode&EnableTracing != 0 {
		fset := fn.Prog.Fset
		// TODO(adonovan): fix: loc() lies for external functions.
		fmt.Fprintf(os.Stderr, "Entering %s%s.\n", fn, loc(fset, fn.Pos()))
		suffix := ""
		if caller != nil {
			suffix = ", resuming " + caller.fn.String() + loc(fset, callpos)
		}
		defer fmt.Fprintf(os.Stderr, "Leaving %s%s.\n", fn, suffix)
	}
	fr := &frame{
		i:      i,
		caller: caller, // for panic/recover
		fn:     fn,
	}
	if caller != nil {
		fr.guard = caller.guard
		fr.g = caller.g
		if fr.guard != nil && !i.pureFn(fn) {
			if _, isIntr := stdIntrinsics[fn.String()]; !isIntr {
				panic(regionAbort{"impure callee " + fn.String()})
			}
		}
	} else {
		fr.g = i.gstate
	}
	if fn.Parent() == nil {
		if fn.Synthetic == "package initializer" {
			if !i.wantInit(fn.Pkg) {
				return nil
			}
		}
		name := fn.String()
		if m := i.models[name]; m != nil && m != fn {
			return callSSA(i, caller, callpos, m, args, nil)
		}
		if r, ok := i.intrinsic(fr, fn, name, args); ok {
			return r
		}
		if ext := externals[name]; ext != nil {
			if i.mode&EnableTracing != 0 {
				fmt.Fprintln(os.Stderr, "\t(external)")
			}
			return ext(fr, args)
		}
		if fn.Blocks == nil {
			panic(unsupported("no code for function: " + name))
		}
	}

	// generic function body?
	if fn.TypeParams().Len() > 0 && len(fn.TypeArgs()) == 0 {
		panic("interp requires ssa.BuilderMode to include InstantiateGenerics to execute generics")
	}

	i.curFrame = fr
	fr.env = make(map[ssa.Value]value)
	fr.block = fn.Blocks[0]
	fr.locals = make([]value, len(fn.Locals))
	for i, l := range fn.Locals {
		fr.locals[i] = zero(mustDeref(l.Type()))
		fr.env[l] = &fr.locals[i]
	}
	for i, p := range fn.Params {
		fr.env[p] = args[i]
	}
	for i, fv := range fn.FreeVars {
		fr.env[fv] = env[i]
	}
	for fr.block != nil {
		runFrame(fr)
	}
	i.curFrame = caller
	return fr.result
}

// runFrame executes SSA instructions starting at fr.block and
// continuing until a return, a panic, or a recovered panic.
//
// After a panic, runFrame panics.
//
// After a normal return, fr.result contains the result of the call
// and fr.block is nil.
//
// A recovered panic in a function without named return parameters
// (NRPs) becomes a normal return of the zero value of the function's
// result type.
//
// After a recovered panic in a function with NRPs, fr.result is
// undefined and fr.block contains the block at which to resume
// control.
func runFrame(fr *frame) {
	defer func() {
		if fr.block == nil {
			return // normal return
		}
		if fr.i.mode&DisableRecover != 0 {
			return // let interpreter crash
		}
		p := recover()
		switch pv := p.(type) {
		case pathEnd, unsupportedErr, goroutineKill, regionAbort:
			panic(p) // engine-level control flow: not visible to the target program
		case *runtime.TypeAssertionError:
			// a failed assertion inside the interpreter itself (target assertions raise runtimeErr):
			// an engine defect, never a behaviour of the program under test
			panic(pathEnd{kind: "engine", msg: "interpreter fault: " + pv.Error() + "\n" + fr.i.stack()})
		}
		fr.panicking = true
		fr.panic = p
		if debugPanics && !fr.i.inInit {
			fmt.Fprintf(os.Stderr, "target panic in %s: %v\n%s\n", fr.fn, describePanic(p), fr.i.stack())
		}
		if fr.i.mode&EnableTracing != 0 {
			fmt.Fprintf(os.Stderr, "Panicking: %T %v.\n", fr.panic, fr.panic)
		}
		fr.runDefers()
		fr.block = fr.fn.Recover
	}()

	for {
		if fr.i.mode&EnableTracing != 0 {
			fmt.Fprintf(os.Stderr, ".%s:\n", fr.block)
		}

		fr.enterBlock()
		nonPhis := executePhis(fr)
		for _, instr := range nonPhis {
			fr.i.ex.instrs++
			if fr.i.mode&EnableTracing != 0 {
				if v, ok := instr.(ssa.Value); ok {
					fmt.Fprintln(os.Stderr, "\t", v.Name(), "=", instr)
				} else {
					fmt.Fprintln(os.Stderr, "\t", instr)
				}
			}
			fr.cur = instr
			if visitInstr(fr, instr) == kReturn {
				return
			}
			// Inv: kNext (continue) or kJump (last instr)
		}
	}
}

// executePhis executes the phi-nodes at the start of the current
// block and returns the non-phi instructions.
func executePhis(fr *frame) []ssa.Instruction {
	firstNonPhi := -1
	for i, instr := range fr.block.Instrs {
		if _, ok := instr.(*ssa.Phi); !ok {
			firstNonPhi = i
			break
		}
	}
	// Inv: 0 <= firstNonPhi; every block contains a non-phi.

	nonPhis := fr.block.Instrs[firstNonPhi:]
	if fr.skipPhis {
		fr.skipPhis = false
		return nonPhis
	}
	if firstNonPhi > 0 {
		phis := fr.block.Instrs[:firstNonPhi]
		// Execute parallel assignment of phis.
		//
		// See "the swap problem" in Briggs et al's "Practical Improvements
		// to the Construction and Destruction of SSA Form" for discussion.
		predIndex := slices.Index(fr.block.Preds, fr.prevBlock)
		fr.phitemps = fr.phitemps[:0]
		for _, phi := range phis {
			phi := phi.(*ssa.Phi)
			if fr.i.mode&EnableTracing != 0 {
				fmt.Fprintln(os.Stderr, "\t", phi.Name(), "=", phi)
			}
			fr.phitemps = append(fr.phitemps, fr.get(phi.Edges[predIndex]))
		}
		for i, phi := range phis {
			fr.env[phi.(*ssa.Phi)] = fr.phitemps[i]
		}
	}
	return nonPhis
}

// doRecover implements the recover() built-in.
func doRecover(caller *frame) value {
	// recover() must be exactly one level beneath the deferred
	// function (two levels beneath the panicking function) to
	// have any effect.  Thus we ignore both "defer recover()" and
	// "defer f() -> g() -> recover()".
	if caller.i.mode&DisableRecover == 0 &&
		caller != nil && !caller.panicking &&
		caller.caller != nil && caller.caller.panicking {
		caller.caller.panicking = false
		p := caller.caller.panic
		caller.caller.panic = nil

		// TODO(adonovan): support runtime.Goexit.
		switch p := p.(type) {
		case targetPanic:
			// The target program explicitly called panic().
			return p.v
		case runtime.Error:
			// The interpreter encountered a runtime error.
			return iface{caller.i.runtimeErrorString, strings.TrimPrefix(p.Error(), "runtime error: ")}
		case string:
			// The interpreter explicitly called panic().
			return iface{caller.i.runtimeErrorString, p}
		default:
			panic(fmt.Sprintf("unexpected panic type %T in target call to recover()", p))
		}
	}
	return iface{}
}
