package align

// C09 — alignment descriptions are well-formed, faithfully scored and type-independent.

import (
	"github.com/biogo/biogo/alphabet"
	"github.com/biogo/biogo/feat"
)

func verifAlign(al Aligner, r, q verifSeq) (aln []feat.Pair, err error, panicked bool) {
	defer func() {
		if p := recover(); p != nil {
			if _, ok := p.(verifAssumeFailed); ok {
				panic(p)
			}
			panicked = true
		}
	}()
	aln, err = al.Align(r, q)
	return
}

// VerifC09_WellFormed: path shape, bounds, per-pair scores, Letters == QLetters, Format.
func VerifC09_WellFormed() {
	which := verifParam("aligner")
	n, m, k := verifParam("n"), verifParam("m"), verifParam("k")
	alpha := verifAlpha(k)
	rl, ri := verifLetters("r", n, k)
	ql, qi := verifLetters("q", m, k)
	mat, flat := verifMatrix(k, verifParam("smax"), verifParam("gmax"))
	open := 0
	affine := which >= 3
	if affine {
		open = verifInt("open", -verifParam("gmax"), 0)
	}
	al := verifAligner(which, mat, open)
	rs, qs := verifMkSeq(alpha, rl, false, "r"), verifMkSeq(alpha, ql, false, "q")
	aln, err := al.Align(rs, qs)
	verifAssert(err == nil, "no-error-on-valid-input")
	if err != nil {
		return
	}
	ps := verifPairs(aln)
	verifAssert(len(ps) > 0, "non-empty-description")
	if len(ps) == 0 {
		return
	}
	sc := verifScoreTables(ri, qi, flat, k+1)
	let := k + 1
	_ = let
	// monotone path
	for x := 0; x+1 < len(ps); x++ {
		verifAssert(ps[x].a1 == ps[x+1].a0 && ps[x].b1 == ps[x+1].b0, "consecutive-pairs-abut")
	}
	adjacentGaps := false
	for x, p := range ps {
		la, lb := p.a1-p.a0, p.b1-p.b0
		verifAssert(la >= 0 && lb >= 0, "non-negative-lengths")
		verifAssert(p.a0 >= 0 && p.a1 <= n && p.b0 >= 0 && p.b1 <= m, "within-bounds")
		if la < 0 || lb < 0 || p.a0 < 0 || p.a1 > n || p.b0 < 0 || p.b1 > m {
			return
		}
		verifAssert(la == lb || la == 0 || lb == 0, "pair-is-block-or-gap")
		if x+1 < len(ps) {
			na, nb := ps[x+1].a1-ps[x+1].a0, ps[x+1].b1-ps[x+1].b0
			if (la == 0 && lb > 0 && nb == 0 && na > 0) || (lb == 0 && la > 0 && na == 0 && nb > 0) {
				adjacentGaps = true
			}
		}
	}
	switch which % 3 {
	case 0:
		verifAssert(ps[0].a0 == 0 && ps[0].b0 == 0 && ps[len(ps)-1].a1 == n && ps[len(ps)-1].b1 == m, "global-spans-both")
	}

	// quality-carrying sequences give the same description
	aq, errq := al.Align(verifMkSeq(alpha, rl, true, "r"), verifMkSeq(alpha, ql, true, "q"))
	verifAssert(errq == nil, "qletters-no-error")
	if errq == nil {
		pq := verifPairs(aq)
		verifAssert(len(pq) == len(ps), "qletters-same-number-of-pairs")
		if len(pq) == len(ps) {
			for x := range ps {
				verifAssert(pq[x] == ps[x], "qletters-same-pairs")
			}
		}
	}

	// Format
	f := Format(rs, qs, aln, '-')
	fa, fb := f[0].(alphabet.Letters), f[1].(alphabet.Letters)
	verifAssert(len(fa) == len(fb), "format-equal-length-rows")
	var ua, ub alphabet.Letters
	for _, l := range fa {
		if l != '-' {
			ua = append(ua, l)
		}
	}
	for _, l := range fb {
		if l != '-' {
			ub = append(ub, l)
		}
	}
	a0, a1, b0, b1 := ps[0].a0, ps[len(ps)-1].a1, ps[0].b0, ps[len(ps)-1].b1
	verifAssert(len(ua) == a1-a0 && len(ub) == b1-b0, "format-ungapped-lengths")
	if len(ua) == a1-a0 && len(ub) == b1-b0 {
		for t := range ua {
			verifAssert(ua[t] == rl[a0+t], "format-reference-letters")
		}
		for t := range ub {
			verifAssert(ub[t] == ql[b0+t], "format-query-letters")
		}
	}

	// per-pair scores, recomputed from letters, matrix and gap parameters
	if affine {
		// known finding: the affine trace-back does not condition on the current layer; under
		// ties it can emit a gap immediately followed by the opposite gap, which the recurrences
		// never scored, so the per-pair scores of such descriptions do not add up
		verifKnown("C09-affine-traceback-ties", adjacentGaps)
	}
	for _, p := range ps {
		la, lb := p.a1-p.a0, p.b1-p.b0
		switch {
		case la == 0 && lb == 0:
			verifAssert(p.score == 0, "empty-pair-scores-zero")
		case la == lb:
			want := 0
			for t := 0; t < la; t++ {
				want += sc.sub[p.a0+t][p.b0+t]
			}
			verifAssert(p.score == want, "block-score-recomputed")
		case lb == 0:
			want := 0
			if affine {
				want = open
			}
			for t := 0; t < la; t++ {
				want += sc.gr[p.a0+t]
			}
			verifAssert(p.score == want, "gap-in-query-score-recomputed")
		case la == 0:
			want := 0
			if affine {
				want = open
			}
			for t := 0; t < lb; t++ {
				want += sc.gq[p.b0+t]
			}
			verifAssert(p.score == want, "gap-in-reference-score-recomputed")
		}
	}
	verifKnown("C09-affine-traceback-ties", false)
	if which%3 == 2 {
		verifKnown("C09-fitted-leading-query", ps[0].b0 > 0)
		verifAssert(ps[0].b0 == 0 && ps[len(ps)-1].b1 == m, "fitted-covers-query")
		verifKnown("C09-fitted-leading-query", false)
	}
	verifObserve("c09", which, n, m, len(ps), ps[0].a0, ps[0].b0, a1, b1, len(fa))
	verifReach("end")
}

// VerifC09_IllTyped: ill-typed inputs give an error, never a panic.
func VerifC09_IllTyped() {
	which := verifParam("aligner")
	n, m, k := verifParam("n"), verifParam("m"), verifParam("k")
	kind := verifParam("kind")
	alpha := verifAlpha(k)
	rl, _ := verifLetters("r", n, k)
	ql, _ := verifLetters("q", m, k)
	mat, _ := verifMatrix(k, 2, 2)
	open := 0
	if which >= 3 {
		open = verifInt("open", -2, 0)
	}
	rs, qs := verifMkSeq(alpha, rl, false, "r"), verifMkSeq(alpha, ql, false, "q")
	wantErr := true
	switch kind {
	case 0: // one arbitrary byte at a symbolic position of either sequence
		pos := verifChoice("pos", n+m)
		b := alphabet.Letter(verifByte("bad", 0, 255))
		if pos < n {
			rl[pos] = b
		} else {
			ql[pos-n] = b
		}
		wantErr = !alpha.IsValid(b)
	case 1: // different alphabets
		qs.alpha = verifAlpha(k + 1)
	case 2: // Letters against QLetters
		qs = verifMkSeq(alpha, ql, true, "q")
	case 3: // matrix with too few rows
		mat = mat[:k]
	case 4: // ragged matrix
		mat[k] = mat[k][:k]
	case 5: // nil alphabet
		rs.alpha = nil
	case 6: // ragged matrix: one row (which one is symbolic) longer than the alphabet
		row := verifChoice("longrow", k+1)
		mat[row] = append(append([]int(nil), mat[row]...), verifInt("extra", -2, 2))
	case 7: // non-square matrix: one row too many
		mat = append(mat, append([]int(nil), mat[0]...))
	}
	aln, err, panicked := verifAlign(verifAligner(which, mat, open), rs, qs)
	verifAssert(!panicked, "no-panic")
	if wantErr && !panicked {
		verifAssert(err != nil, "error-reported")
	}
	if !wantErr && !panicked {
		verifAssert(err == nil && len(aln) > 0, "valid-input-accepted")
	}
	verifObserve("c09ill", which, kind, panicked, err != nil)
	verifReach("end")
}
