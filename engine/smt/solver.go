// Package smt drives an SMT solver process (z3 -in) incrementally.
package smt

import (
	"bufio"
	"fmt"
	"io"
	"os"
	"os/exec"
	"strconv"
	"strings"
	"time"

	"verif/engine/sym"
)

type Result int

const (
	Unsat Result = iota
	Sat
	Unknown
)

func (r Result) String() string { return [...]string{"unsat", "sat", "unknown"}[r] }

type Solver struct {
	cmd      *exec.Cmd
	in       io.WriteCloser
	out      *bufio.Reader
	level    int
	defined  map[int]bool // term ids (and var ids) defined
	stack    [][]int      // ids defined at each level
	Queries  int
	Errors   int
	Time     time.Duration
	Log      io.Writer
	argv     []string
	SawErr   string
	Unknowns int

	// one-shot mode: large contexts are solved by a fresh solver process (z3's non-incremental
	// strategy is 10-30x faster than its incremental core on ite-heavy bit-vector problems)
	OneShotMin  int
	lines       [][]string
	nlines      int
	lastOneShot bool
	OneShots    int
	TmpDir      string

	// cross-solver validation: every XEvery-th decided query is re-decided by the other
	// solvers in XSolvers (each an argv taking a file name last); sat-vs-unsat is a disagreement.
	XEvery    int
	XSolvers  [][]string
	XChecked  int
	XAgree    int
	XUnknown  int
	XDisagree []string
	xcount    int

	modelArgv               []string // solver that decided the last check after a retry
	Retries, RetriesDecided int
	RetryTime               time.Duration
}

// New starts a solver. argv e.g. {"z3","-in","-t:10000"}.
func New(argv []string) (*Solver, error) {
	s := &Solver{argv: argv}
	if err := s.start(); err != nil {
		return nil, err
	}
	return s, nil
}

func (s *Solver) start() error {
	s.cmd = exec.Command(s.argv[0], s.argv[1:]...)
	in, err := s.cmd.StdinPipe()
	if err != nil {
		return err
	}
	out, err := s.cmd.StdoutPipe()
	if err != nil {
		return err
	}
	s.cmd.Stderr = os.Stderr
	if err := s.cmd.Start(); err != nil {
		return err
	}
	s.in = in
	s.out = bufio.NewReaderSize(out, 1<<16)
	s.level = 0
	s.defined = map[int]bool{}
	s.stack = [][]int{nil}
	s.lines = [][]string{nil}
	s.nlines = 0
	s.send("(set-option :print-success false)")
	return nil
}

func (s *Solver) Close() {
	if s.cmd != nil {
		s.in.Close()
		s.cmd.Process.Kill()
		s.cmd.Wait()
		s.cmd = nil
	}
}

func (s *Solver) record(line string) {
	s.lines[len(s.lines)-1] = append(s.lines[len(s.lines)-1], line)
	s.nlines++
}

func (s *Solver) send(line string) {
	if s.Log != nil {
		fmt.Fprintln(s.Log, line)
	}
	if strings.HasPrefix(line, "(declare-") || strings.HasPrefix(line, "(assert") || strings.HasPrefix(line, "(define-") {
		s.record(line)
	}
	io.WriteString(s.in, line)
	io.WriteString(s.in, "\n")
}

func (s *Solver) Level() int { return s.level }

func (s *Solver) Push() {
	s.send("(push)")
	s.level++
	s.stack = append(s.stack, nil)
	s.lines = append(s.lines, nil)
}

func (s *Solver) PopTo(level int) {
	if level >= s.level {
		return
	}
	n := s.level - level
	s.send(fmt.Sprintf("(pop %d)", n))
	for i := 0; i < n; i++ {
		top := s.stack[len(s.stack)-1]
		for _, id := range top {
			delete(s.defined, id)
		}
		s.stack = s.stack[:len(s.stack)-1]
		s.nlines -= len(s.lines[len(s.lines)-1])
		s.lines = s.lines[:len(s.lines)-1]
	}
	s.level = level
}

// define makes sure t and all its sub-terms are declared/defined at the current level.
func (s *Solver) define(t *sym.Term) {
	if t.Op == sym.OConst || s.defined[t.ID] {
		return
	}
	// iterative post-order to avoid deep recursion on long ite chains
	type fr struct {
		t *sym.Term
		i int
	}
	st := []fr{{t, 0}}
	for len(st) > 0 {
		top := &st[len(st)-1]
		if top.t.Op == sym.OConst || s.defined[top.t.ID] {
			st = st[:len(st)-1]
			continue
		}
		if top.i < len(top.t.Args) {
			a := top.t.Args[top.i]
			top.i++
			if a.Op != sym.OConst && !s.defined[a.ID] {
				st = append(st, fr{a, 0})
			}
			continue
		}
		x := top.t
		if x.Op == sym.OVar {
			s.send(fmt.Sprintf("(declare-const %s %s)", sym.Ref(x), sym.SortString(x)))
		} else {
			// definitional equality instead of define-fun: z3 4.8.12 handles long
			// define-fun chains pathologically slowly (27 s vs 2 s on the same log)
			s.send(fmt.Sprintf("(declare-const %s %s)", sym.Ref(x), sym.SortString(x)))
			s.send(fmt.Sprintf("(assert (= %s %s))", sym.Ref(x), sym.Body(x)))
		}
		s.defined[x.ID] = true
		s.stack[len(s.stack)-1] = append(s.stack[len(s.stack)-1], x.ID)
		st = st[:len(st)-1]
	}
}

func (s *Solver) Assert(t *sym.Term) {
	s.define(t)
	s.send(fmt.Sprintf("(assert %s)", sym.Ref(t)))
}

func (s *Solver) readLine() (string, error) {
	for {
		line, err := s.out.ReadString('\n')
		if err != nil {
			return "", err
		}
		line = strings.TrimSpace(line)
		if line == "" {
			continue
		}
		return line, nil
	}
}

// Check runs (check-sat) under the current assertions.
func (s *Solver) Check() Result {
	r := s.check()
	if r == Unknown && s.SawErr == "" && s.Errors == 0 {
		// a time-out (often only machine load): decide the same assertion stack again with a
		// fresh process and a longer limit, then with the other z3 release
		r = s.retry()
	}
	if s.XEvery > 0 && r != Unknown {
		s.xcount++
		if s.xcount == 5 || s.xcount == 50 || s.xcount%s.XEvery == 0 {
			s.crossCheck(r)
		}
	}
	return r
}

// retry re-decides the current assertion stack after an unknown answer.
func (s *Solver) retry() Result {
	s.Retries++
	save := s.argv
	defer func() { s.argv = save }()
	s.modelArgv = nil
	for _, argv := range [][]string{{"z3", "-t:120000"}, {"z3-new", "-t:120000"}} {
		s.argv = argv
		s.Unknowns--
		t0 := time.Now()
		r, _ := s.oneShot("")
		s.RetryTime += time.Since(t0)
		if r != Unknown {
			s.RetriesDecided++
			s.lastOneShot = true
			s.modelArgv = argv
			return r
		}
	}
	return Unknown
}

// crossCheck re-decides the current assertion stack with the other solvers.
func (s *Solver) crossCheck(r Result) {
	dir := s.TmpDir
	if dir == "" {
		dir = os.TempDir()
	}
	f, err := os.CreateTemp(dir, "gosym-x-*.smt2")
	if err != nil {
		return
	}
	w := bufio.NewWriter(f)
	w.WriteString("(set-logic ALL)\n")
	for _, lv := range s.lines {
		for _, l := range lv {
			w.WriteString(l)
			w.WriteByte('\n')
		}
	}
	w.WriteString("(check-sat)\n")
	w.Flush()
	f.Close()
	keep := false
	for _, argv := range s.XSolvers {
		out, _ := exec.Command(argv[0], append(append([]string{}, argv[1:]...), f.Name())...).Output()
		first, _, _ := strings.Cut(strings.TrimSpace(string(out)), "\n")
		first = strings.TrimSpace(first)
		s.XChecked++
		switch {
		case first == r.String():
			s.XAgree++
		case first == "sat" || first == "unsat":
			keep = true
			s.XDisagree = append(s.XDisagree, fmt.Sprintf("%s says %s, %s says %s: %s", s.argv[0], r, argv[0], first, f.Name()))
		default:
			s.XUnknown++
		}
	}
	if !keep {
		os.Remove(f.Name())
	}
}

func (s *Solver) check() Result {
	s.modelArgv = nil
	if s.OneShotMin > 0 && s.nlines >= s.OneShotMin {
		s.lastOneShot = true
		r, _ := s.oneShot("")
		return r
	}
	s.lastOneShot = false
	t0 := time.Now()
	s.Queries++
	s.send("(check-sat)")
	defer func() { s.Time += time.Since(t0) }()
	for {
		line, err := s.readLine()
		if err != nil {
			s.SawErr = "solver died: " + err.Error()
			s.Errors++
			return Unknown
		}
		switch {
		case line == "sat":
			return Sat
		case line == "unsat":
			return Unsat
		case line == "unknown" || line == "timeout":
			s.Unknowns++
			return Unknown
		case strings.HasPrefix(line, "(error"):
			s.SawErr = line
			s.Errors++
			// keep reading: the check-sat answer follows; but the answer is not trusted
			r, _ := s.readLine()
			_ = r
			return Unknown
		}
	}
}

// Define makes sure t is known to the solver (must precede the check-sat whose model is read).
func (s *Solver) Define(t *sym.Term) { s.define(t) }

// CheckWith asserts extra temporarily and checks.
func (s *Solver) CheckWith(extra *sym.Term) Result {
	lvl := s.level
	s.Push()
	s.Assert(extra)
	r := s.Check()
	s.PopTo(lvl)
	return r
}

// Model fetches the values of vars under the last sat answer (must be called
// before popping). Values are returned as raw uint64 bits (signed Ints as int64 bits).
func (s *Solver) Model(vars []*sym.Term) (map[string]uint64, error) {
	m := map[string]uint64{}
	var want []*sym.Term
	for _, v := range vars {
		if s.defined[v.ID] {
			want = append(want, v)
		}
	}
	if len(want) == 0 {
		return m, nil
	}
	var sb strings.Builder
	sb.WriteString("(get-value (")
	for _, v := range want {
		sb.WriteString(sym.Ref(v))
		sb.WriteString(" ")
	}
	sb.WriteString("))")
	if s.lastOneShot {
		r, out := s.oneShot(sb.String())
		if r != Sat {
			return nil, fmt.Errorf("one-shot model: solver answered %v", r)
		}
		return parseModel(out)
	}
	s.send(sb.String())
	// read balanced s-expression
	depth, started := 0, false
	var buf strings.Builder
	for !started || depth > 0 {
		line, err := s.out.ReadString('\n')
		if err != nil {
			return nil, err
		}
		if strings.HasPrefix(strings.TrimSpace(line), "(error") {
			s.Errors++
			s.SawErr = line
			return nil, fmt.Errorf("solver: %s", line)
		}
		for _, ch := range line {
			if ch == '(' {
				depth++
				started = true
			} else if ch == ')' {
				depth--
			}
		}
		buf.WriteString(line)
	}
	return parseModel(buf.String())
}

func parseModel(text string) (map[string]uint64, error) {
	m := map[string]uint64{}
	toks := tokenize(text)
	// grammar: ( (name value) ... )
	pos := 1
	for pos < len(toks) && toks[pos] == "(" {
		pos++
		name := toks[pos]
		pos++
		val, np := parseValue(toks, pos)
		pos = np
		if toks[pos] != ")" {
			return nil, fmt.Errorf("model parse: %v", toks)
		}
		pos++
		name = strings.Trim(name, "|")
		m[name] = val
	}
	return m, nil
}

// oneShot solves the current assertion stack with a fresh solver process.
func (s *Solver) oneShot(getValue string) (Result, string) {
	t0 := time.Now()
	s.Queries++
	s.OneShots++
	defer func() { s.Time += time.Since(t0) }()
	dir := s.TmpDir
	if dir == "" {
		dir = os.TempDir()
	}
	f, err := os.CreateTemp(dir, "gosym-*.smt2")
	if err != nil {
		s.SawErr = err.Error()
		s.Errors++
		return Unknown, ""
	}
	defer os.Remove(f.Name())
	w := bufio.NewWriter(f)
	for _, lv := range s.lines {
		for _, l := range lv {
			w.WriteString(l)
			w.WriteByte('\n')
		}
	}
	w.WriteString("(check-sat)\n")
	if getValue != "" {
		w.WriteString(getValue + "\n")
	}
	w.Flush()
	f.Close()
	use := s.argv
	if getValue != "" && s.modelArgv != nil {
		use = s.modelArgv
	}
	argv := []string{}
	for _, a := range use[1:] {
		if a != "-in" {
			argv = append(argv, a)
		}
	}
	argv = append(argv, f.Name())
	out, _ := exec.Command(use[0], argv...).Output()
	text := string(out)
	if strings.Contains(text, "(error") {
		s.SawErr = text
		s.Errors++
		return Unknown, ""
	}
	first, rest, _ := strings.Cut(strings.TrimSpace(text), "\n")
	switch strings.TrimSpace(first) {
	case "sat":
		return Sat, rest
	case "unsat":
		return Unsat, rest
	}
	s.Unknowns++
	return Unknown, rest
}

// ModelOf returns the value of an arbitrary term under the last sat answer.
func (s *Solver) ModelOf(t *sym.Term) (uint64, error) {
	if t.Op != sym.OConst && !s.defined[t.ID] {
		return 0, fmt.Errorf("ModelOf: term not defined before check-sat")
	}
	if s.lastOneShot {
		r, out := s.oneShot(fmt.Sprintf("(get-value (%s))", sym.Ref(t)))
		if r != Sat {
			return 0, fmt.Errorf("one-shot model: solver answered %v", r)
		}
		return parseOne(out)
	}
	s.send(fmt.Sprintf("(get-value (%s))", sym.Ref(t)))
	depth, started := 0, false
	var buf strings.Builder
	for !started || depth > 0 {
		line, err := s.out.ReadString('\n')
		if err != nil {
			return 0, err
		}
		if strings.HasPrefix(strings.TrimSpace(line), "(error") {
			s.Errors++
			s.SawErr = line
			return 0, fmt.Errorf("solver: %s", line)
		}
		for _, ch := range line {
			if ch == '(' {
				depth++
				started = true
			} else if ch == ')' {
				depth--
			}
		}
		buf.WriteString(line)
	}
	return parseOne(buf.String())
}

func parseOne(text string) (uint64, error) {
	toks := tokenize(text)
	// ( ( ref value ) )
	if len(toks) < 5 {
		return 0, fmt.Errorf("model parse: %v", toks)
	}
	// skip the echoed term, which may itself be an s-expression (constants like (- 1))
	pos := 2
	if toks[pos] == "(" {
		d := 0
		for ; pos < len(toks); pos++ {
			if toks[pos] == "(" {
				d++
			} else if toks[pos] == ")" {
				d--
				if d == 0 {
					pos++
					break
				}
			}
		}
	} else {
		pos++
	}
	v, _ := parseValue(toks, pos)
	return v, nil
}

func tokenize(s string) []string {
	var toks []string
	i := 0
	for i < len(s) {
		c := s[i]
		switch {
		case c == '(' || c == ')':
			toks = append(toks, string(c))
			i++
		case c == ' ' || c == '\n' || c == '\t' || c == '\r':
			i++
		case c == '|':
			j := strings.IndexByte(s[i+1:], '|')
			toks = append(toks, s[i:i+j+2])
			i += j + 2
		default:
			j := i
			for j < len(s) && !strings.ContainsRune("() \n\t\r", rune(s[j])) {
				j++
			}
			toks = append(toks, s[i:j])
			i = j
		}
	}
	return toks
}

func parseValue(toks []string, pos int) (uint64, int) {
	t := toks[pos]
	switch {
	case t == "true":
		return 1, pos + 1
	case t == "false":
		return 0, pos + 1
	case strings.HasPrefix(t, "#x"):
		v, _ := strconv.ParseUint(t[2:], 16, 64)
		return v, pos + 1
	case strings.HasPrefix(t, "#b"):
		v, _ := strconv.ParseUint(t[2:], 2, 64)
		return v, pos + 1
	case t == "(":
		// (- n) or (_ bvN w)
		if toks[pos+1] == "-" {
			v, np := parseValue(toks, pos+2)
			return uint64(-int64(v)), np + 1
		}
		if toks[pos+1] == "_" {
			v, _ := strconv.ParseUint(strings.TrimPrefix(toks[pos+2], "bv"), 10, 64)
			return v, pos + 5
		}
		// unknown form: skip balanced
		d := 0
		for i := pos; i < len(toks); i++ {
			if toks[i] == "(" {
				d++
			} else if toks[i] == ")" {
				d--
				if d == 0 {
					return 0, i + 1
				}
			}
		}
		return 0, len(toks)
	default:
		v, err := strconv.ParseInt(t, 10, 64)
		if err != nil {
			u, _ := strconv.ParseUint(t, 10, 64)
			return u, pos + 1
		}
		return uint64(v), pos + 1
	}
}
