package alphabet

// C18 — quality scores encode, decode and convert consistently.

import "math"

var verifEncodings = []Encoding{Sanger, Solexa, Illumina1_3, Illumina1_5, Illumina1_8, Illumina1_9}

// printable Phred range of a Phred-offset encoding
func verifPhredRange(e Encoding) (lo, hi int) {
	switch e {
	case Sanger, Illumina1_8, Illumina1_9:
		return 0, 93
	case Illumina1_3:
		return 0, 62
	case Illumina1_5:
		return 2, 62
	}
	return 0, -1
}

// VerifC18_Codec: decode(encode(score)) == score on the printable range, for a symbolic score.
func VerifC18_Codec() {
	e := verifEncodings[verifParam("encoding")]
	if e != Solexa {
		lo, hi := verifPhredRange(e)
		q := Qphred(verifByte("q", 0, 255))
		b := q.Encode(e)
		if int(q) >= lo && int(q) <= hi {
			verifAssert(e.DecodeToQphred(b) == q, "phred-decode-of-encode")
			verifAssert(b >= 33 && b <= 126, "phred-encoded-byte-printable")
		}
		// decode then encode on a symbolic byte of the printable image
		off := 33
		if e == Illumina1_3 || e == Illumina1_5 {
			off = 64
		}
		c := verifByte("c", 0, 255)
		if int(c) >= lo+off && int(c) <= hi+off {
			verifAssert(e.DecodeToQphred(c).Encode(e) == c, "phred-encode-of-decode")
		}
		verifObserve("c18codec", int(e), int(q), int(b))
	} else {
		s := Qsolexa(verifInt("s", -128, 127))
		b := s.Encode(Solexa)
		if s >= -5 && s <= 62 {
			verifAssert(Solexa.DecodeToQsolexa(b) == s, "solexa-decode-of-encode")
			verifAssert(b >= 59 && b <= 126, "solexa-encoded-byte-printable")
		}
		c := verifByte("c", 59, 126)
		verifAssert(Solexa.DecodeToQsolexa(c).Encode(Solexa) == c, "solexa-encode-of-decode")
		verifObserve("c18codec", int(e), int(s), int(b))
	}
	verifReach("end")
}

// VerifC18_Convert: the two conversion tables are mutually inverse from Q=10 upwards
// (symbolic score over the tables the real init built).
func VerifC18_Convert() {
	q := Qphred(verifByte("q", 10, 120))
	verifAssert(q.Qsolexa().Qphred() == q, "phred-solexa-phred-identity-from-10")
	s := Qsolexa(verifInt("s", 10, 120))
	verifAssert(s.Qphred().Qsolexa() == s, "solexa-phred-solexa-identity-from-10")
	verifObserve("c18conv", int(q), int(s))
	verifReach("end")
}

// VerifC18_Tables: float code executed on its table points (host IEEE arithmetic), and the
// table entries exported for the exact real-arithmetic (QF_NRA) obligations discharged by vcheck.
func VerifC18_Tables() {
	for q := 0; q < 254; q++ {
		p := Qphred(q).ProbE()
		verifAssert(Ephred(p) == Qphred(q), "ephred-of-probe-identity")
		verifObserve("phredE", q, int64(math.Float64bits(p)))
		verifObserve("phredSolexa", q, int(Qphred(q).Qsolexa()))
	}
	for s := -127; s < 127; s++ {
		p := Qsolexa(s).ProbE()
		verifAssert(Esolexa(p) == Qsolexa(s), "esolexa-of-probe-identity")
		verifObserve("solexaE", s, int64(math.Float64bits(p)))
		verifObserve("solexaPhred", s, int(Qsolexa(s).Qphred()))
	}
	verifAssert(Qphred(254).ProbE() == 0 && math.IsNaN(Qphred(255).ProbE()), "phred-special-probabilities")
	verifAssert(Ephred(0) == 254 && Ephred(math.NaN()) == 255, "ephred-special")
	verifReach("end")
}
