package interp

// sort.Slice / sort.SliceStable / sort.SliceIsSorted and reflect.Swapper: the reflection part
// (reflectlite.ValueOf, Swapper) is replaced by a host swap function over the interpreter's
// slice representation; the sorting algorithm itself (sort.pdqsort_func, sort.stable_func)
// is the standard library's SSA, executed as usual, so every comparison is a call of the
// target's less function and may be symbolic.

import (
	"math/bits"

	"golang.org/x/tools/go/ssa"
)

// hostFn is a callable value implemented by the engine.
type hostFn func(fr *frame, args []value) value

func sliceSwapper(x value) (hostFn, int) {
	e, _ := x.(iface)
	s, ok := e.v.([]value)
	if !ok {
		panic(unsupported("sort.Slice / reflect.Swapper of a non-slice or symbolic-length slice"))
	}
	n := len(s)
	return func(fr *frame, args []value) value {
		a, aok := args[0].(int)
		b, bok := args[1].(int)
		if !aok || !bok {
			panic(unsupported("reflect.Swapper with symbolic indices"))
		}
		if a < 0 || a >= n || b < 0 || b >= n {
			panic(runtimeError("reflect: slice index out of range"))
		}
		s[a], s[b] = s[b], s[a]
		return nil
	}, n
}

func (i *interpreter) sortFunc(name string) *ssa.Function {
	p := i.prog.ImportedPackage("sort")
	if p == nil {
		panic(unsupported("package sort not loaded"))
	}
	f := p.Func(name)
	if f == nil {
		panic(unsupported("sort." + name + " not found"))
	}
	return f
}

func init() {
	stdIntrinsicsExtra["sort.Slice"] = func(fr *frame, args []value) value {
		swap, n := sliceSwapper(args[0])
		limit := bits.Len(uint(n))
		ls := structure{args[1], swap}
		callSSA(fr.i, fr, 0, fr.i.sortFunc("pdqsort_func"), []value{ls, 0, n, limit}, nil)
		return nil
	}
	stdIntrinsicsExtra["sort.SliceStable"] = func(fr *frame, args []value) value {
		swap, n := sliceSwapper(args[0])
		ls := structure{args[1], swap}
		callSSA(fr.i, fr, 0, fr.i.sortFunc("stable_func"), []value{ls, n}, nil)
		return nil
	}
	stdIntrinsicsExtra["sort.SliceIsSorted"] = func(fr *frame, args []value) value {
		_, n := sliceSwapper(args[0])
		for k := n - 1; k > 0; k-- {
			r := call(fr.i, fr, 0, args[1], []value{k, k - 1})
			if fr.branch(fr.i.truth(r)) {
				return false
			}
		}
		return true
	}
	sw := func(fr *frame, args []value) value {
		swap, _ := sliceSwapper(args[0])
		return swap
	}
	stdIntrinsicsExtra["reflect.Swapper"] = sw
	stdIntrinsicsExtra["internal/reflectlite.Swapper"] = sw
}
