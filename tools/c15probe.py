import sys,json
sys.path.insert(0,'/verif')
import vcheck, checks
shapes=json.loads(sys.argv[1])
jobs=[{"pkgdir":"align/pals/dp","func":"VerifC15_AlignTraps","sched":"det","floatsplit":True,"math":True,"params":{"tlen":t,"qlen":q,"minlen":ml,"minid":mi,"k":k},"timeout_s":1500} for (t,q,ml,mi,k) in shapes]
PID=sys.argv[2] if len(sys.argv)>2 else "C15"
checks.CHECKS[PID]={"jobs":lambda t:jobs,"functions":[],"explanation":"","outside":""}
rc=vcheck.run_check(PID,"quick")
d=json.load(open('/verif/out/gen/%s/result.json'%PID) if True else open('x'))
for j in d['jobs']:
    print(j['params'],'paths',j['paths'],'done',j['paths_done'],'q',j['queries'],'solver',round(j['solver_s'],1),'wall',round(j['wall_s'],1),j['assert_checks'],(j['undecided'] or [''])[0][:300])
print('rc',rc)
