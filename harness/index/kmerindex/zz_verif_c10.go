package kmerindex

// C10 — the k-mer index returns exactly the occurrences of every k-mer.

import (
	"github.com/biogo/biogo/alphabet"
	"github.com/biogo/biogo/seq/linear"
)

const verifLetters = "acgtnACGTN"

func verifSeq(n int) (*linear.Seq, []int) {
	ls := make([]alphabet.Letter, n)
	code := make([]int, n) // 0..3 base index, 4 = invalid
	mask := verifParam("symmask") // < 0: every letter symbolic; else only the letters whose bit is set
	for i := range ls {
		var x int
		if mask < 0 || mask&(1<<uint(i)) != 0 {
			x = verifInt("s"+string(rune('a'+i)), 0, 9)
		} else {
			x = (i*7 + i/3 + 2) % 10 // a fixed scrambled sequence over a,c,g,t,n in both cases
		}
		ls[i] = alphabet.Letter(verifLetters[x])
		code[i] = x % 5
	}
	return linear.NewSeq("s", ls, alphabet.DNA), code
}

// window p is valid iff none of its letters is n/N; its code is the base-4 number of its letters.
func verifWindow(code []int, p, k int) (valid bool, w int) {
	valid = true
	for i := 0; i < k; i++ {
		c := code[p+i]
		if c == 4 {
			valid = false
			c = 0
		}
		w = w*4 + c
	}
	return
}

// VerifC10_Index: frequencies before Build, positions after Build, Check.
func VerifC10_Index() {
	k, n := verifParam("k"), verifParam("n")
	s, code := verifSeq(n)
	if k < MinKmerLen {
		MinKmerLen = k // exported lower bound: smaller words keep the finger table small
	}
	ki, err := New(k, s)
	verifAssert(err == nil, "constructor-accepts")
	if err != nil {
		return
	}
	words := 1
	for i := 0; i < k; i++ {
		words *= 4
	}
	// the queried word: symbolic, case-split by the engine when wsplit=1 (each value explored)
	w := verifInt("w", 0, words-1)
	if verifParam("wsplit") == 1 {
		w = verifConcrete(w)
	}
	// specification
	occ := 0
	nvalid := 0
	var occAt []bool
	for p := 0; p+k <= n; p++ {
		valid, ww := verifWindow(code, p, k)
		hit := valid && ww == w
		occAt = append(occAt, hit)
		if hit {
			occ++
		}
		if valid {
			nvalid++
		}
	}
	verifAssert(ki.FingerAt(w) == occ, "frequency-table-equals-occurrence-count")
	ki.Build()
	pos, perr := ki.KmerPositions(Kmer(w))
	verifAssert(perr == nil, "positions-no-error")
	verifAssert(len(pos) == occ, "number-of-positions-equals-occurrences")
	if len(pos) == occ {
		// exactly the occurrences, in increasing order
		j := 0
		for p := range occAt {
			if occAt[p] {
				verifAssert(pos[j] == p, "positions-are-the-occurrences-in-order")
				j++
			}
		}
	}
	if verifParam("check") == 1 {
		ok, found := ki.Check()
		verifAssert(ok && found == nvalid, "check-reports-all-valid-windows")
	}
	_, berr := ki.KmerPositions(Kmer(words))
	verifAssert(berr != nil, "out-of-range-kmer-rejected")
	verifObserve("c10", k, n, w, occ, nvalid, len(pos))
	verifReach("end")
}

// VerifC10_ForEach: iteration over a sub-range visits exactly the valid windows, ascending, with the right codes.
func VerifC10_ForEach() {
	k, n := verifParam("k"), verifParam("n")
	s, code := verifSeq(n)
	ki, err := New(k, s)
	verifAssert(err == nil, "constructor-accepts")
	if err != nil {
		return
	}
	start := verifChoice("start", n-k+1)
	end := start + k + verifChoice("span"+string(rune('0'+start)), n-start-k+1)
	var gotPos, gotKmer []int
	ferr := ki.ForEachKmerOf(s, start, end, func(_ *Index, p, kmer int) {
		gotPos = append(gotPos, p)
		gotKmer = append(gotKmer, kmer)
	})
	verifAssert(ferr == nil, "foreach-no-error")
	j := 0
	for p := start; p+k <= end; p++ {
		valid, w := verifWindow(code, p, k)
		if valid {
			verifAssert(j < len(gotPos), "valid-window-visited")
			if j < len(gotPos) {
				verifAssert(gotPos[j] == p && gotKmer[j] == w, "visited-in-order-with-right-code")
			}
			j++
		}
	}
	verifAssert(j == len(gotPos), "only-valid-windows-visited")
	verifObserve("c10f", k, n, start, end, len(gotPos))
	verifReach("end")
}

// VerifC10_Bits: encoding, formatting and reverse complement agree with string operations.
func VerifC10_Bits() {
	k := verifParam("k")
	words := 1
	for i := 0; i < k; i++ {
		words *= 4
	}
	x := Kmer(verifInt("x", 0, words-1))
	str, err := Format(x, k, alphabet.DNA)
	verifAssert(err == nil && len(str) == k, "format-length")
	if err != nil || len(str) != k {
		return
	}
	// letter by letter
	y := x
	for i := k - 1; i >= 0; i-- {
		verifAssert(str[i] == "acgt"[y&3], "format-letter-by-letter")
		y >>= 2
	}
	back, kerr := KmerOf(k, alphabet.DNA.LetterIndex(), str)
	verifAssert(kerr == nil && back == x, "kmerof-of-format-identity")
	// reverse complement through strings
	rc := make([]byte, k)
	for i := 0; i < k; i++ {
		c, _ := alphabet.DNA.Complement(alphabet.Letter(str[k-1-i]))
		rc[i] = byte(c)
	}
	want, werr := KmerOf(k, alphabet.DNA.LetterIndex(), string(rc))
	verifAssert(werr == nil, "revcomp-string-encodes")
	c := ComplementOf(k, x)
	verifAssert(c == want, "complementof-equals-string-reverse-complement")
	verifAssert(ComplementOf(k, c) == x, "complementof-involution")
	// GC count: float of a symbolic count is opaque; check the count the float is built from
	gc := 0
	for i := 0; i < k; i++ {
		if str[i] == 'c' || str[i] == 'g' {
			gc++
		}
	}
	g2 := 0
	z := x
	for i := k - 1; i >= 0; i, z = i-1, z>>2 {
		g2 += int((z & 1) ^ ((z & 2) >> 1))
	}
	verifAssert(g2 == gc, "gc-count-formula-equals-string-count")
	if verifParam("concretegc") == 0 {
		// the real GCof on the symbolic k-mer: its int-to-float conversion case-splits the count
		// (job option floatsplit), so the float comparison is between concrete values
		verifAssert(GCof(k, x) == float64(verifConcrete(gc))/float64(k), "gcof-equals-string-gc-fraction")
	}
	if verifParam("concretegc") == 1 {
		xc := Kmer(verifConcrete(int(x)))
		gcc := 0
		sc, _ := Format(xc, k, alphabet.DNA)
		for i := 0; i < k; i++ {
			if sc[i] == 'c' || sc[i] == 'g' {
				gcc++
			}
		}
		verifAssert(GCof(k, xc) == float64(gcc)/float64(k), "gcof-equals-string-gc-fraction")
	}
	verifObserve("c10b", k, int(x), int(c))
	verifReach("end")
}
