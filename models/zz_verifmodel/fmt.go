// Package zz_verifmodel holds the environment models that gosym substitutes for library
// functions whose real bodies are out of reach (fmt's reflection-driven printer). They are
// ordinary Go, interpreted symbolically like the code under test; natively the real functions run.
package zz_verifmodel

import (
	"errors"
	"fmt"
	"io"
	"reflect"
	"strconv"
)

// state implements fmt.State for Formatter operands.
type state struct {
	w             io.Writer
	n             int
	err           error
	wid, prec     int
	widOK, precOK bool
	sharp, plus   bool
	minus, space  bool
	zero          bool
}

func (s *state) Write(b []byte) (int, error) {
	n, err := s.w.Write(b)
	s.n += n
	if err != nil && s.err == nil {
		s.err = err
	}
	return n, err
}
func (s *state) Width() (int, bool)     { return s.wid, s.widOK }
func (s *state) Precision() (int, bool) { return s.prec, s.precOK }
func (s *state) Flag(c int) bool {
	switch c {
	case '#':
		return s.sharp
	case '+':
		return s.plus
	case '-':
		return s.minus
	case ' ':
		return s.space
	case '0':
		return s.zero
	}
	return false
}

func appendUint(b []byte, u uint64) []byte {
	var tmp [20]byte
	i := len(tmp)
	for u >= 10 {
		i--
		tmp[i] = byte('0' + u%10)
		u /= 10
	}
	i--
	tmp[i] = byte('0' + u)
	return append(b, tmp[i:]...)
}

func appendInt(b []byte, v int64) []byte {
	if v < 0 {
		b = append(b, '-')
		return appendUint(b, uint64(-v))
	}
	return appendUint(b, uint64(v))
}

// printValue renders one operand for verb (one of 's','d','v','c'); prec is used for floats.
func printValue(s *state, verb rune, a interface{}, prec int, precOK bool) {
	if a == nil {
		s.Write([]byte("<nil>"))
		return
	}
	if f, ok := a.(fmt.Formatter); ok {
		f.Format(s, verb)
		return
	}
	if verb != 'd' && verb != 'c' {
		switch v := a.(type) {
		case error:
			s.Write([]byte(v.Error()))
			return
		case fmt.Stringer:
			s.Write([]byte(v.String()))
			return
		}
	}
	switch v := a.(type) {
	case string:
		s.Write([]byte(v))
		return
	case []byte:
		s.Write(v)
		return
	case int:
		if verb == 'c' {
			s.Write([]byte(string(rune(v))))
			return
		}
		s.Write(appendInt(nil, int64(v)))
		return
	case float64:
		p := -1
		f := byte('g')
		if precOK {
			p, f = prec, 'f'
		}
		s.Write([]byte(strconv.FormatFloat(v, f, p, 64)))
		return
	}
	rv := reflect.ValueOf(a)
	switch rv.Kind() {
	case reflect.String:
		s.Write([]byte(rv.String()))
	case reflect.Int, reflect.Int8, reflect.Int16, reflect.Int32, reflect.Int64:
		if verb == 'c' {
			s.Write([]byte(string(rune(rv.Int()))))
			return
		}
		s.Write(appendInt(nil, rv.Int()))
	case reflect.Uint, reflect.Uint8, reflect.Uint16, reflect.Uint32, reflect.Uint64:
		if verb == 'c' {
			s.Write([]byte(string(rune(rv.Uint()))))
			return
		}
		s.Write(appendUint(nil, rv.Uint()))
	case reflect.Float64, reflect.Float32:
		p := -1
		f := byte('g')
		if precOK {
			p, f = prec, 'f'
		}
		s.Write([]byte(strconv.FormatFloat(rv.Float(), f, p, 64)))
	default:
		panic("zz_verifmodel: unsupported operand kind in fmt model")
	}
}

// Fprintf: verbs %s %d %v %c %%, with optional '*' width and '.*' precision.
func Fprintf(w io.Writer, format string, a ...interface{}) (int, error) {
	s := &state{w: w}
	arg := 0
	next := func() interface{} {
		if arg >= len(a) {
			panic("zz_verifmodel: missing operand")
		}
		x := a[arg]
		arg++
		return x
	}
	lit := 0
	for i := 0; i < len(format); i++ {
		if format[i] != '%' {
			continue
		}
		if i > lit {
			s.Write([]byte(format[lit:i]))
		}
		i++
		s.widOK, s.precOK, s.sharp = false, false, false
		if i < len(format) && format[i] == '#' {
			s.sharp = true
			i++
		}
		if i < len(format) && format[i] == '*' {
			s.wid, s.widOK = next().(int), true
			i++
		}
		if i+1 < len(format) && format[i] == '.' && format[i+1] == '*' {
			s.prec, s.precOK = next().(int), true
			i += 2
		}
		if i >= len(format) {
			panic("zz_verifmodel: truncated format")
		}
		switch verb := rune(format[i]); verb {
		case '%':
			s.Write([]byte{'%'})
		case 's', 'd', 'v', 'c':
			printValue(s, verb, next(), s.prec, s.precOK)
		default:
			panic("zz_verifmodel: unsupported verb in fmt model: " + string(verb))
		}
		lit = i + 1
	}
	if lit < len(format) {
		s.Write([]byte(format[lit:]))
	}
	return s.n, s.err
}

func Fprint(w io.Writer, a ...interface{}) (int, error) {
	s := &state{w: w}
	if st, ok := w.(*state); ok {
		// printing into a Formatter's State: keep counting in the outer state as well
		s = &state{w: st}
	}
	for i, x := range a {
		if i > 0 {
			_, s1 := a[i-1].(string)
			_, s2 := x.(string)
			if !s1 && !s2 {
				s.Write([]byte{' '})
			}
		}
		printValue(s, 'v', x, 0, false)
	}
	return s.n, s.err
}

func Fprintln(w io.Writer, a ...interface{}) (int, error) {
	s := &state{w: w}
	for i, x := range a {
		if i > 0 {
			s.Write([]byte{' '})
		}
		printValue(s, 'v', x, 0, false)
	}
	s.Write([]byte{'\n'})
	return s.n, s.err
}

type sink struct{ b []byte }

func (k *sink) Write(p []byte) (int, error) { k.b = append(k.b, p...); return len(p), nil }

func Sprintf(format string, a ...interface{}) string {
	k := &sink{}
	Fprintf(k, format, a...)
	return string(k.b)
}

func Sprint(a ...interface{}) string {
	k := &sink{}
	Fprint(k, a...)
	return string(k.b)
}

func Errorf(format string, a ...interface{}) error {
	defer func() { recover() }()
	return errors.New("formatted error")
}
