package interp

// Loading, package initialisation and the per-job exploration driver.

import (
	"fmt"
	"go/token"
	"go/types"
	"os"
	"runtime"
	"runtime/debug"
	"sort"
	"strconv"
	"strings"
	"time"

	"golang.org/x/tools/go/packages"
	"golang.org/x/tools/go/ssa"
	"golang.org/x/tools/go/ssa/ssautil"

	"verif/engine/smt"
	"verif/engine/sym"
)

var addTok = token.ADD

type Program struct {
	Prog   *ssa.Program
	Pkgs   []*ssa.Package
	Fset   *token.FileSet
	byPath map[string]*ssa.Package
}

// Load loads the given package patterns from dir with the overlay files injected.
func Load(dir string, overlay map[string][]byte, patterns []string, env []string) (*Program, error) {
	cfg := &packages.Config{
		Mode:    packages.LoadAllSyntax,
		Dir:     dir,
		Overlay: overlay,
		Env:     append(os.Environ(), env...),
	}
	initial, err := packages.Load(cfg, patterns...)
	if err != nil {
		return nil, err
	}
	var errs []string
	packages.Visit(initial, nil, func(p *packages.Package) {
		for _, e := range p.Errors {
			errs = append(errs, e.Error())
		}
	})
	if len(errs) > 0 {
		return nil, fmt.Errorf("package errors:\n%s", strings.Join(errs, "\n"))
	}
	prog, pkgs := ssautil.AllPackages(initial, ssa.InstantiateGenerics|ssa.SanityCheckFunctions&0)
	prog.Build()
	p := &Program{Prog: prog, Pkgs: pkgs, byPath: map[string]*ssa.Package{}}
	for _, pk := range prog.AllPackages() {
		p.byPath[pk.Pkg.Path()] = pk
	}
	return p, nil
}

func (p *Program) Package(path string) *ssa.Package { return p.byPath[path] }

type Job struct {
	Package    string // import path
	Func       string // harness function name
	Params     map[string]int
	Math       bool
	NoIfConv   bool
	FloatSplit bool   // int->float conversions case-split the integer (exact) instead of producing an opaque float
	Sched      string // "", "det", "sym"
	Preempt    int
	Limits     Limits
	Witnesses  int
	KnownIDs   []string
	Solver     []string
	InitAllow  []string          // extra packages whose init may run
	Models     map[string]string // callee -> model function (pkgpath.Name)
	Trace      bool
	SolverLog  string
	FSModel    bool // enable the in-memory temp-file/gob model
	MaxFaults  int  // number of injected I/O faults allowed per path
	OneShotMin int  // context size (asserted lines) from which queries go to a fresh solver process; <0 never
}

type Result struct {
	Job                        Job
	Stats                      Stats
	Violations                 []Violation
	Witnesses                  []Witness
	Undecided                  []string
	Wall                       time.Duration
	Exhausted                  bool // the whole tree was explored
	SolverErrs                 int
	XChecked, XAgree, XUnknown int // cross-solver validation (GOSYM_XCHECK)
	Retries, RetriesDecided    int // time-outs re-decided with a longer limit
}

var defaultInitAllow = map[string]bool{
	"errors": true, "io": true, "bytes": true, "strings": true, "strconv": true, "sort": true,
	"unicode": true, "unicode/utf8": true, "bufio": true, "container/heap": true, "math/bits": true,
	"image/color": true, "encoding/csv": true, "math": true, "internal/bytealg": false,
	"io/ioutil": false, "fmt": false, "os": false, "slices": true, "cmp": true, "iter": true,
	"internal/stringslite": true, "unicode/utf16": true, "internal/itoa": true,
}

func (i *interpreter) wantInit(pkg *ssa.Package) bool {
	if pkg == nil {
		return false
	}
	if i.initDone[pkg] {
		return true // guard inside init makes it a no-op
	}
	path := pkg.Pkg.Path()
	ok := strings.HasPrefix(path, "github.com/biogo/") || i.initAllow(pkg)
	if ok {
		i.initDone[pkg] = true
	}
	return ok
}

func newInterpreter(p *Program, job *Job) *interpreter {
	i := &interpreter{
		prog:       p.Prog,
		globals:    make(map[*ssa.Global]*value),
		sizes:      &types.StdSizes{WordSize: 8, MaxAlign: 8},
		ctx:        sym.NewCtx(),
		math:       job.Math,
		params:     job.Params,
		initDone:   map[*ssa.Package]bool{},
		pdom:       map[*ssa.Function]*pdomInfo{},
		pure:       map[*ssa.Function]int8{},
		regions:    map[*ssa.If]*regionInfo{},
		models:     map[string]*ssa.Function{},
		onces:      map[*value]bool{},
		noIfConv:   job.NoIfConv,
		floatSplit: job.FloatSplit,
	}
	allow := map[string]bool{}
	for k, v := range defaultInitAllow {
		allow[k] = v
	}
	for _, a := range job.InitAllow {
		allow[a] = true
	}
	i.initAllow = func(pkg *ssa.Package) bool { return allow[pkg.Pkg.Path()] }
	runtimePkg := i.prog.ImportedPackage("runtime")
	if runtimePkg == nil {
		panic("ssa.Program doesn't include runtime package")
	}
	i.runtimeErrorString = runtimePkg.Type("errorString").Object().Type()
	initReflect(i)
	for _, pkg := range i.prog.AllPackages() {
		for _, m := range pkg.Members {
			if v, ok := m.(*ssa.Global); ok {
				cell := zero(mustDeref(v.Type()))
				i.globals[v] = &cell
			}
		}
	}
	for callee, model := range job.Models {
		k := strings.LastIndex(model, ".")
		mp := p.byPath[model[:k]]
		if mp == nil {
			panic("model package not loaded: " + model)
		}
		f := mp.Func(model[k+1:])
		if f == nil {
			panic("model function not found: " + model)
		}
		i.models[callee] = f
	}
	return i
}

// runInit runs the package initialisers reachable from pkg (allow-listed ones only), concretely.
func (i *interpreter) runInit(pkg *ssa.Package) (err error) {
	i.inInit = true
	defer func() {
		i.inInit = false
		if p := recover(); p != nil {
			err = fmt.Errorf("init failed: %v", describePanic(p))
			if os.Getenv("GOSYM_DEBUG") != "" {
				fmt.Fprintf(os.Stderr, "init failed: %v\n%s\n%s\n", describePanic(p), i.stack(), debug.Stack())
			}
		}
	}()
	i.initDone[pkg] = true
	call(i, nil, token.NoPos, pkg.Func("init"), nil)
	return nil
}

func describePanic(p interface{}) string {
	switch p := p.(type) {
	case targetPanic:
		return "panic: " + toString(p.v)
	case pathEnd:
		return p.kind + ": " + p.msg
	case unsupportedErr:
		return "unsupported: " + p.msg
	case error:
		return p.Error()
	}
	return fmt.Sprint(p)
}

// Run explores the harness exhaustively (within limits).
func (p *Program) Run(job Job) (res *Result) {
	t0 := time.Now()
	res = &Result{Job: job}
	pkg := p.byPath[job.Package]
	if pkg == nil {
		res.Undecided = append(res.Undecided, "package not loaded: "+job.Package)
		return
	}
	fn := pkg.Func(job.Func)
	if fn == nil {
		res.Undecided = append(res.Undecided, "harness not found: "+job.Func)
		return
	}
	i := newInterpreter(p, &job)
	argv := job.Solver
	if len(argv) == 0 {
		argv = []string{"z3", "-in", "-t:20000"}
	}
	solver, err := smt.New(argv)
	if err != nil {
		res.Undecided = append(res.Undecided, "solver: "+err.Error())
		return
	}
	defer solver.Close()
	solver.OneShotMin = job.OneShotMin
	if solver.OneShotMin == 0 {
		solver.OneShotMin = 600
	}
	solver.TmpDir = os.Getenv("GOSYM_TMP")
	if n, _ := strconv.Atoi(os.Getenv("GOSYM_XCHECK")); n > 0 {
		solver.XEvery = n
		solver.XSolvers = [][]string{{"z3-new", "-T:30"}, {"cvc5", "--tlimit=30000"}}
	}
	if job.SolverLog != "" {
		f, _ := os.Create(job.SolverLog)
		defer f.Close()
		solver.Log = f
	}
	ex := &exec{solver: solver, lim: job.Limits, wantWit: job.Witnesses, knownIDs: map[string]bool{}}
	for _, id := range job.KnownIDs {
		ex.knownIDs[id] = true
	}
	ex.stats.AssertChecks = map[string]int{}
	ex.stats.AssertConst = map[string]int{}
	ex.stats.Reached = map[string]int{}
	ex.stats.Funcs = map[string]int64{}
	ex.stats.KnownHits = map[string]int{}
	ex.ndIndex = map[string]int{}
	i.ex = ex
	if job.Trace {
		i.mode |= EnableTracing
	}
	if err := i.runInit(pkg); err != nil {
		res.Undecided = append(res.Undecided, err.Error())
		return
	}
	if ex.lim.MaxViolations == 0 {
		ex.lim.MaxViolations = 4
	}
	if ex.lim.MaxInstrs == 0 {
		ex.lim.MaxInstrs = 20_000_000
	}
	if ex.lim.Unwind == 0 {
		ex.lim.Unwind = 100000
	}
	res.Exhausted = true
	for {
		ex.stats.Paths++
		kind, msg := i.runPath(fn, &job)
		switch kind {
		case "done":
			ex.stats.PathsDone++
		case "assume":
			ex.stats.PathsAssume++
		case "violation":
			ex.stats.PathsViol++
		default:
			ex.undecided = append(ex.undecided, kind+": "+msg)
		}
		if len(ex.undecided) > 0 {
			res.Exhausted = false
			break
		}
		if ex.unknownViol >= ex.lim.MaxViolations {
			res.Exhausted = false
			break
		}
		if ex.lim.MaxPaths > 0 && ex.stats.Paths >= ex.lim.MaxPaths {
			res.Exhausted = false
			ex.undecided = append(ex.undecided, fmt.Sprintf("path budget %d exhausted", ex.lim.MaxPaths))
			break
		}
		if !ex.lim.Deadline.IsZero() && time.Now().After(ex.lim.Deadline) {
			res.Exhausted = false
			ex.undecided = append(ex.undecided, "time budget exhausted")
			break
		}
		if !ex.backtrack() {
			break
		}
	}
	ex.stats.Queries = solver.Queries
	ex.stats.SolverTime = solver.Time
	ex.stats.Unknowns = solver.Unknowns
	res.SolverErrs = solver.Errors
	res.XChecked, res.XAgree, res.XUnknown = solver.XChecked, solver.XAgree, solver.XUnknown
	res.Retries, res.RetriesDecided = solver.Retries, solver.RetriesDecided
	for _, d := range solver.XDisagree {
		ex.undecided = append(ex.undecided, "cross-solver disagreement: "+d)
	}
	if solver.Errors > 0 {
		ex.undecided = append(ex.undecided, "solver error: "+solver.SawErr)
	}
	res.Stats = ex.stats
	res.Violations = ex.violations
	res.Witnesses = ex.witnesses
	res.Undecided = ex.undecided
	res.Wall = time.Since(t0)
	return
}

// runPath executes the harness once along the current decision prefix.
func (i *interpreter) runPath(fn *ssa.Function, job *Job) (kind, msg string) {
	ex := i.ex
	ex.pos = 0
	ex.instrs = 0
	ex.observe = nil
	ex.obsTerms = nil
	ex.reached = nil
	ex.nondets = nil
	ex.ndIndex = map[string]int{}
	ex.knownOn = ""
	ex.opaqueQ = 0
	{
		// a (deterministic) scheduler is always present: code under test may start goroutines
		// even where the harness author did not expect any
		i.sched = newScheduler(i, job.Sched == "sym", job.Preempt)
		i.gstate = i.sched.gs[0]
	}
	if job.FSModel {
		i.fs = newFS(job.MaxFaults)
	}
	defer func() {
		if i.sched != nil {
			i.sched.killAll()
		}
		ex.stats.Instrs += ex.instrs
	}()
	defer func() {
		p := recover()
		if p == nil {
			return
		}
		switch p := p.(type) {
		case pathEnd:
			kind, msg = p.kind, p.msg
			if p.kind == "race" {
				p.kind = "data-race"
			}
			if p.kind == "deadlock" || p.kind == "crash" || p.kind == "data-race" {
				sched := ""
				if i.sched != nil {
					sched = fmt.Sprint(i.sched.log)
				}
				i.escaped(ex, p.kind+": "+p.msg+" schedule="+sched)
				kind = "violation"
			}
		case unsupportedErr:
			kind, msg = "unsupported", p.msg
			if os.Getenv("GOSYM_DEBUG") != "" {
				msg += "\n" + i.stack() + string(debug.Stack())
			}
		case regionAbort:
			kind, msg = "unsupported", "region abort escaped: "+p.why
		case targetPanic:
			i.escaped(ex, "panic-escaped: "+toString(p.v))
			kind, msg = "violation", "panic escaped the harness"
		case runtime.Error:
			if _, own := p.(runtimeErr); own {
				i.escaped(ex, "panic-escaped: "+p.Error())
				kind, msg = "violation", "runtime error escaped the harness"
			} else {
				kind, msg = "engine", fmt.Sprintf("interpreter fault: %v\n%s\n%s", p, i.stack(), debug.Stack())
			}
		default:
			kind, msg = "engine", fmt.Sprintf("interpreter fault: %v\n%s\n%s", p, i.stack(), debug.Stack())
		}
	}()
	call(i, nil, token.NoPos, fn, nil)
	// end of harness
	if len(ex.witnesses) < ex.wantWit {
		if ex.solver.Check() == smt.Sat {
			if m, full, err := ex.model(); err == nil {
				ex.witnesses = append(ex.witnesses, Witness{Model: m, Observe: ex.renderObserve(full), Reached: ex.reached})
			}
		}
	}
	return "done", ""
}

// escaped records a panic that left the harness as a violation with a model of the path.
func (i *interpreter) escaped(ex *exec, label string) {
	if !ex.live() {
		return
	}
	v := Violation{Label: label, Trace: ex.decisions(), Known: ex.knownOn}
	if ex.solver.Check() == smt.Sat {
		if m, full, err := ex.model(); err == nil {
			v.Model = m
			v.Observe = ex.renderObserve(full)
		}
	}
	ex.violations = append(ex.violations, v)
	if v.Known == "" {
		ex.unknownViol++
	}
}

// SortedKeys is a helper for deterministic output.
func SortedKeys(m map[string]int) []string {
	var ks []string
	for k := range m {
		ks = append(ks, k)
	}
	sort.Strings(ks)
	return ks
}
