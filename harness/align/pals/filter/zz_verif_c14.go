package filter

// C14 — the q-gram filter reports every epsilon-match (no false negatives). Tiny bounds only:
// the filter's control flow depends on the data at every step (see DESIGN.md).

import (
	"io"

	"github.com/biogo/biogo/alphabet"
	"github.com/biogo/biogo/index/kmerindex"
	"github.com/biogo/biogo/morass"
	"github.com/biogo/biogo/seq/linear"
)

func verifDNA(name string, n int) (*linear.Seq, []int) {
	ls := make([]alphabet.Letter, n)
	code := make([]int, n)
	for i := range ls {
		x := verifInt(name+string(rune('a'+i)), 0, 3)
		ls[i] = alphabet.Letter("acgt"[x])
		code[i] = x
	}
	return linear.NewSeq(name, ls, alphabet.DNA), code
}

// VerifC14_Filter
func VerifC14_Filter() {
	k, n, e, off := verifParam("k"), verifParam("n"), verifParam("e"), verifParam("offset")
	tl, ql := verifParam("tlen"), verifParam("qlen")
	self := verifParam("self") == 1
	if k < kmerindex.MinKmerLen {
		kmerindex.MinKmerLen = k
	}
	target, tc := verifDNA("t", tl)
	var query *linear.Seq
	var qc []int
	if self {
		query, qc = target, tc
	} else {
		query, qc = verifDNA("q", ql)
	}
	ki, err := kmerindex.New(k, target)
	verifAssert(err == nil, "index-accepts")
	if err != nil {
		return
	}
	ki.Build()
	f := New(ki, &Params{WordSize: k, MinMatch: n, MaxError: e, TubeOffset: off})
	m, err := morass.New(Hit{}, "verif", "", 1000, false)
	verifAssert(err == nil, "sorter-accepts")
	if err != nil {
		return
	}
	ferr := f.Filter(query, self, false, m)
	verifAssert(ferr == nil, "filter-succeeds")
	if ferr != nil {
		return
	}
	var hits []Hit
	for i := 0; i < 64; i++ {
		var h Hit
		if m.Pull(&h) == io.EOF {
			break
		}
		hits = append(hits, h)
	}
	m.CleanUp()
	band := off + e
	// every pair of length-n windows with at most e substitutions must be covered by a hit
	for t0 := 0; t0+n <= len(tc); t0++ {
		for q0 := 0; q0+n <= len(qc); q0++ {
			if self && q0 <= t0 {
				continue // self comparison: only matches strictly above the main diagonal
			}
			mism := 0
			for i := 0; i < n; i++ {
				if tc[t0+i] != qc[q0+i] {
					mism++
				}
			}
			if mism > e {
				continue
			}
			covered := false
			d := q0 - t0
			for _, h := range hits {
				// the consumer (Merger.MergeFilterHit) reads the band in q-t units:
				// -Diagonal <= q-t <= -Diagonal + (TubeOffset+MaxError) - 1
				if h.From <= q0+n-1 && h.To > q0 && -h.Diagonal <= d && d <= -h.Diagonal+band-1 {
					covered = true
				}
			}
			verifAssert(covered, "epsilon-match-covered-by-a-hit")
		}
	}
	verifObserve("c14", tl, ql, len(hits))
	verifReach("end")
}
