package interp

// Insertion-ordered map (deterministic iteration, required for re-execution) with
// support for keys that have symbolic components.

import (
	"go/types"

	"verif/engine/sym"
)

type hashable interface {
	hash(t types.Type) int
	eq(t types.Type, x interface{}) bool
}

type omap struct {
	kt    types.Type
	keys  []value
	vals  []value
	live  []bool
	n     int
	idx   map[value]int // concrete keys of builtin-hashable types
	hidx  map[int][]int // hash -> entry indices for struct/array/iface keys
	plain bool
	nsym  int // number of live entries whose key has symbolic parts
}

func makeMap(kt types.Type, reserve int64) value {
	return &omap{kt: kt, plain: usesBuiltinMap(kt), idx: map[value]int{}, hidx: map[int][]int{}}
}

func containsSym(v value) bool {
	switch v := v.(type) {
	case sv, symstr:
		return true
	case structure:
		for _, f := range v {
			if containsSym(f) {
				return true
			}
		}
	case array:
		for _, f := range v {
			if containsSym(f) {
				return true
			}
		}
	case iface:
		return v.t != nil && containsSym(v.v)
	}
	return false
}

// find returns the index of the entry equal to k, or -1. Symbolic comparisons are decisions.
func (m *omap) find(fr *frame, k value) int {
	if m == nil {
		return -1
	}
	ksym := containsSym(k)
	if !ksym {
		if m.plain {
			if j, ok := m.idx[k]; ok && m.live[j] {
				return j
			}
		} else {
			h := hash(m.kt, m.kt, k)
			for _, j := range m.hidx[h] {
				if m.live[j] && !containsSym(m.keys[j]) && equals(m.kt, m.keys[j], k) {
					return j
				}
			}
		}
		if m.nsym == 0 {
			return -1
		}
	}
	for j := range m.keys {
		if !m.live[j] {
			continue
		}
		if !ksym && !containsSym(m.keys[j]) {
			continue // concrete-vs-concrete already handled
		}
		eq := fr.i.symEquals(fr, m.kt, m.keys[j], k)
		if fr.branch(eq) {
			return j
		}
	}
	return -1
}

func (fr *frame) mapUpdate(m *omap, k, v value) {
	if j := m.find(fr, k); j >= 0 {
		m.vals[j] = v
		return
	}
	j := len(m.keys)
	m.keys = append(m.keys, k)
	m.vals = append(m.vals, v)
	m.live = append(m.live, true)
	m.n++
	if containsSym(k) {
		m.nsym++
	} else if m.plain {
		m.idx[k] = j
	} else {
		h := hash(m.kt, m.kt, k)
		m.hidx[h] = append(m.hidx[h], j)
	}
}

func (fr *frame) mapDelete(m *omap, k value) {
	if m == nil {
		return
	}
	if j := m.find(fr, k); j >= 0 {
		m.live[j] = false
		m.n--
		if containsSym(m.keys[j]) {
			m.nsym--
		} else if m.plain {
			delete(m.idx, m.keys[j])
		}
	}
}

func (m *omap) len() int {
	if m == nil {
		return 0
	}
	return m.n
}

type omapIter struct {
	m *omap
	j int
}

func (it *omapIter) next() tuple {
	if it.m != nil {
		for it.j < len(it.m.keys) {
			j := it.j
			it.j++
			if it.m.live[j] {
				return tuple{true, it.m.keys[j], it.m.vals[j]}
			}
		}
	}
	return tuple{false, nil, nil}
}

// symEquals returns a term for x == y at static type t.
func (i *interpreter) symEquals(fr *frame, t types.Type, x, y value) *sym.Term {
	c := i.ctx
	switch xv := x.(type) {
	case sv:
		ty, _ := i.term(y)
		return c.Eq(xv.t, ty)
	case structure:
		yv := y.(structure)
		st := t.Underlying().(*types.Struct)
		r := c.True
		for j := range xv {
			if st.Field(j).Name() == "_" {
				continue
			}
			r = c.And(r, i.symEquals(fr, st.Field(j).Type(), xv[j], yv[j]))
		}
		return r
	case array:
		yv := y.(array)
		et := t.Underlying().(*types.Array).Elem()
		r := c.True
		for j := range xv {
			r = c.And(r, i.symEquals(fr, et, xv[j], yv[j]))
		}
		return r
	case iface:
		yv := y.(iface)
		if !sameType(xv.t, yv.t) {
			return c.False
		}
		if xv.t == nil {
			return c.True
		}
		return i.symEquals(fr, xv.t, xv.v, yv.v)
	case symstr:
		return i.strEq(x, y)
	case string:
		if _, ok := y.(symstr); ok {
			return i.strEq(x, y)
		}
	}
	if _, ok := y.(sv); ok {
		tx, _ := i.term(x)
		ty, _ := i.term(y)
		return c.Eq(tx, ty)
	}
	return c.Bool(equals(t, x, y))
}
