package sequtils

// C06 — Truncate, Join, Stitch and Compose follow positional semantics.

import (
	"github.com/biogo/biogo/alphabet"
	"github.com/biogo/biogo/feat"
	"github.com/biogo/biogo/seq"
	"github.com/biogo/biogo/seq/linear"
)

type verifFeat struct {
	s, e int
	o    feat.Orientation
}

func (f verifFeat) Start() int                    { return f.s }
func (f verifFeat) End() int                      { return f.e }
func (f verifFeat) Len() int                      { return f.e - f.s }
func (f verifFeat) Name() string                  { return "f" }
func (f verifFeat) Description() string           { return "" }
func (f verifFeat) Location() feat.Feature        { return nil }
func (f verifFeat) Orientation() feat.Orientation { return f.o }

type verifSet []feat.Feature

func (s verifSet) Features() []feat.Feature { return s }

func verifSrc(n int, qual bool) (seq.Sequence, []alphabet.QLetter, int) {
	comp := alphabet.DNA.(alphabet.Complementor)
	ls := make([]alphabet.QLetter, n)
	for i := range ls {
		l := alphabet.Letter(verifByte("l"+string(rune('0'+i)), 0, 127))
		_, ok := comp.Complement(l)
		verifAssume(ok)
		ls[i] = alphabet.QLetter{L: l, Q: seq.DefaultQphred}
		if qual {
			ls[i].Q = alphabet.Qphred(verifByte("q"+string(rune('0'+i)), 0, 60))
		}
	}
	off := verifChoice("off", 3) - 1
	if qual {
		s := linear.NewQSeq("src", append([]alphabet.QLetter(nil), ls...), alphabet.DNA, alphabet.Sanger)
		s.Offset = off
		return s, ls, off
	}
	b := make([]alphabet.Letter, n)
	for i := range b {
		b[i] = ls[i].L
	}
	s := linear.NewSeq("src", b, alphabet.DNA)
	s.Offset = off
	return s, ls, off
}

func verifSame(s seq.Sequence, want []alphabet.QLetter, start int, qual bool, tag string) {
	verifAssert(s.Len() == len(want), tag+"-length")
	if s.Len() != len(want) {
		return
	}
	verifAssert(s.Start() == start, tag+"-start")
	if s.Start() != start {
		return
	}
	for i := range want {
		at := s.At(start + i)
		verifAssert(at.L == want[i].L, tag+"-letters")
		if qual {
			verifAssert(at.Q == want[i].Q, tag+"-qualities")
		}
	}
}

func verifNoPanic(f func() error) (err error, panicked bool) {
	defer func() {
		if p := recover(); p != nil {
			if _, ok := p.(verifAssumeFailed); ok {
				panic(p)
			}
			panicked = true
		}
	}()
	err = f()
	return
}

// after an operation with dst != src: src is unchanged and shares no storage with dst
func verifIndependent(dst, src seq.Sequence, ls []alphabet.QLetter, off int, qual bool) {
	verifSame(src, ls, off, qual, "source-unchanged")
	if dst.Len() > 0 {
		dst.Set(dst.Start(), alphabet.QLetter{L: 'x', Q: 1})
		verifSame(src, ls, off, qual, "no-shared-storage")
	}
}

// VerifC06_Truncate
func VerifC06_Truncate() {
	n, qual := verifParam("n"), verifParam("qual") == 1
	src, ls, off := verifSrc(n, qual)
	circular := verifChoice("circular", 2) == 1
	if circular {
		src.SetConformation(feat.Circular)
	}
	start := off - 2 + verifChoice("start", n+5)
	end := off - 2 + verifChoice("end", n+5)
	inPlace := verifChoice("inplace", 2) == 1
	var dst seq.Sequence = src
	if !inPlace {
		dst = src.New()
	}
	err, panicked := verifNoPanic(func() error { return Truncate(dst, src, start, end) })
	verifAssert(!panicked, "truncate-never-panics")
	if panicked {
		return
	}
	inside := start >= off && end <= off+n && start <= off+n && end >= off
	var want []alphabet.QLetter
	ok := false
	switch {
	case start <= end:
		ok = inside
		if ok {
			want = ls[start-off : end-off]
		}
	case circular:
		ok = inside
		if ok {
			want = append(append([]alphabet.QLetter(nil), ls[start-off:]...), ls[:end-off]...)
		}
	}
	verifAssert((err == nil) == ok, "truncate-error-iff-range-outside")
	if err == nil && ok {
		verifSame(dst, want, start, qual, "truncate")
		verifAssert(dst.Conformation() == feat.Linear, "truncate-result-is-linear")
		if !inPlace {
			verifIndependent(dst, src, ls, off, qual)
		}
	}
	verifObserve("c06t", n, off, start, end, err != nil, dst.Len())
	verifReach("end")
}

// VerifC06_Join
func VerifC06_Join() {
	n, m := verifParam("n"), verifParam("m")
	a, la, _ := verifSrc(n, false)
	comp := alphabet.DNA.(alphabet.Complementor)
	lb := make([]alphabet.QLetter, m)
	bb := make([]alphabet.Letter, m)
	for i := range lb {
		l := alphabet.Letter(verifByte("b"+string(rune('0'+i)), 0, 127))
		_, ok := comp.Complement(l)
		verifAssume(ok)
		lb[i] = alphabet.QLetter{L: l, Q: seq.DefaultQphred}
		bb[i] = l
	}
	b := linear.NewSeq("b", bb, alphabet.DNA)
	where := []int{seq.Start, seq.End}[verifChoice("where", 2)]
	err, panicked := verifNoPanic(func() error { return Join(a.(*linear.Seq), b, where) })
	verifAssert(!panicked && err == nil, "join-accepts-linear")
	if panicked || err != nil {
		return
	}
	var want []alphabet.QLetter
	if where == seq.Start {
		want = append(append(want, lb...), la...)
	} else {
		want = append(append(want, la...), lb...)
	}
	verifAssert(a.Len() == len(want), "join-length")
	if a.Len() == len(want) {
		for i := range want {
			verifAssert(a.At(a.Start()+i).L == want[i].L, "join-is-concatenation-in-requested-order")
		}
	}
	for i := range lb {
		verifAssert(b.At(i).L == lb[i].L, "join-source-unchanged")
	}
	verifObserve("c06j", n, m, where, a.Len())
	verifReach("end")
}

func verifFeatures(k, off, n int, oriented bool) ([]feat.Feature, []verifFeat) {
	var fs []feat.Feature
	var vs []verifFeat
	for i := 0; i < k; i++ {
		is := string(rune('0' + i))
		s := off - 1 + verifChoice("fs"+is, n+2)
		e := s + verifChoice("fl"+is, n+2)
		o := feat.Forward
		if oriented {
			o = []feat.Orientation{feat.Forward, feat.Reverse, feat.NotOriented}[verifChoice("fo"+is, 3)]
		}
		v := verifFeat{s, e, o}
		fs = append(fs, v)
		vs = append(vs, v)
	}
	return fs, vs
}

// VerifC06_Stitch: letters at the union of the feature intervals clipped to the sequence, ascending.
func VerifC06_Stitch() {
	n, k, qual := verifParam("n"), verifParam("k"), verifParam("qual") == 1
	src, ls, off := verifSrc(n, qual)
	fs, vs := verifFeatures(k, off, n, false)
	dst := src.New()
	err, panicked := verifNoPanic(func() error { return Stitch(dst, src, verifSet(fs)) })
	verifAssert(!panicked && err == nil, "stitch-accepts")
	if panicked || err != nil {
		return
	}
	var want []alphabet.QLetter
	for p := off; p < off+n; p++ {
		in := false
		for _, v := range vs {
			if v.s <= p && p < v.e {
				in = true
			}
		}
		if in {
			want = append(want, ls[p-off])
		}
	}
	verifSame(dst, want, 0, qual, "stitch")
	verifIndependent(dst, src, ls, off, qual)
	verifObserve("c06s", n, k, off, len(want))
	verifReach("end")
}

// VerifC06_Compose: concatenation, in feature order, of each feature's clipped segment,
// reverse-complemented for every reverse-oriented feature.
func VerifC06_Compose() {
	n, k, qual := verifParam("n"), verifParam("k"), verifParam("qual") == 1
	src, ls, off := verifSrc(n, qual)
	comp := alphabet.DNA.(alphabet.Complementor)
	fs, vs := verifFeatures(k, off, n, true)
	dst := src.New()
	err, panicked := verifNoPanic(func() error { return Compose(dst, src, verifSet(fs)) })
	verifAssert(!panicked, "compose-never-panics")
	verifAssert(panicked || err == nil, "compose-accepts")
	if panicked || err != nil {
		return
	}
	var want []alphabet.QLetter
	for _, v := range vs {
		lo, hi := v.s, v.e
		if lo < off {
			lo = off
		}
		if hi > off+n {
			hi = off + n
		}
		if lo >= hi {
			continue
		}
		seg := ls[lo-off : hi-off]
		if v.o == feat.Reverse {
			for i := len(seg) - 1; i >= 0; i-- {
				c, _ := comp.Complement(seg[i].L)
				want = append(want, alphabet.QLetter{L: c, Q: seg[i].Q})
			}
		} else {
			want = append(want, seg...)
		}
	}
	verifSame(dst, want, 0, qual, "compose")
	verifIndependent(dst, src, ls, off, qual)
	verifObserve("c06c", n, k, off, len(want))
	verifReach("end")
}
