// gosym: bounded symbolic execution of Go SSA with an SMT solver.
//
// usage: gosym spec.json  (result JSON on stdout)
package main

import (
	"encoding/json"
	"fmt"
	"os"
	"runtime/pprof"
	"sync"
	"time"

	"verif/engine/interp"
)

type Spec struct {
	Repo     string            `json:"repo"`
	Overlay  map[string]string `json:"overlay"` // virtual path -> real file
	Patterns []string          `json:"patterns"`
	Jobs     []JobSpec         `json:"jobs"`
	Workers  int               `json:"workers"`
}

type JobSpec struct {
	ID         string            `json:"id"`
	Package    string            `json:"package"`
	Func       string            `json:"func"`
	Params     map[string]int    `json:"params"`
	Math       bool              `json:"math"`
	NoIfConv   bool              `json:"noifconv"`
	FloatSplit bool              `json:"floatsplit"`
	Sched      string            `json:"sched"`
	Preempt    int               `json:"preempt"`
	MaxPaths   int               `json:"max_paths"`
	MaxInstrs  int64             `json:"max_instrs"`
	Unwind     int               `json:"unwind"`
	SplitCap   int               `json:"split_cap"`
	MaxViol    int               `json:"max_violations"`
	TimeoutS   int               `json:"timeout_s"`
	Witnesses  int               `json:"witnesses"`
	KnownIDs   []string          `json:"known_ids"`
	Solver     []string          `json:"solver"`
	InitAllow  []string          `json:"init_allow"`
	Models     map[string]string `json:"models"`
	Trace      bool              `json:"trace"`
	SolverLog  string            `json:"solver_log"`
	OneShotMin int               `json:"oneshot_min"`
	FSModel    bool              `json:"fsmodel"`
	MaxFaults  int               `json:"max_faults"`
}

type JobOut struct {
	ID           string             `json:"id"`
	Package      string             `json:"package"`
	Func         string             `json:"func"`
	Params       map[string]int     `json:"params"`
	Math         bool               `json:"math"`
	Paths        int                `json:"paths"`
	PathsDone    int                `json:"paths_done"`
	PathsAssume  int                `json:"paths_assume"`
	PathsViol    int                `json:"paths_violation"`
	Queries      int                `json:"queries"`
	SolverS      float64            `json:"solver_s"`
	WallS        float64            `json:"wall_s"`
	Instrs       int64              `json:"instrs"`
	Asserts      map[string]int     `json:"assert_checks"`
	AssertsConst map[string]int     `json:"assert_const"`
	Reached      map[string]int     `json:"reached"`
	Obligations  int                `json:"obligations"`
	Regions      int                `json:"regions"`
	RegionAborts int                `json:"region_aborts"`
	MaxDepth     int                `json:"max_depth"`
	Unknowns     int                `json:"unknowns"`
	XChecked     int                `json:"xchecked"`
	XAgree       int                `json:"xagree"`
	XUnknown     int                `json:"xunknown"`
	Retries      int                `json:"retries"`
	RetriesOK    int                `json:"retries_decided"`
	Exhausted    bool               `json:"exhausted"`
	Violations   []interp.Violation `json:"violations"`
	Witnesses    []interp.Witness   `json:"witnesses"`
	Undecided    []string           `json:"undecided"`
}

func main() {
	if len(os.Args) < 2 {
		fmt.Fprintln(os.Stderr, "usage: gosym spec.json")
		os.Exit(2)
	}
	data, err := os.ReadFile(os.Args[1])
	if err != nil {
		fmt.Fprintln(os.Stderr, err)
		os.Exit(2)
	}
	var spec Spec
	if err := json.Unmarshal(data, &spec); err != nil {
		fmt.Fprintln(os.Stderr, err)
		os.Exit(2)
	}
	overlay := map[string][]byte{}
	for virt, real := range spec.Overlay {
		b, err := os.ReadFile(real)
		if err != nil {
			fmt.Fprintln(os.Stderr, err)
			os.Exit(2)
		}
		overlay[virt] = b
	}
	if pf := os.Getenv("GOSYM_PROF"); pf != "" {
		f, _ := os.Create(pf)
		pprof.StartCPUProfile(f)
		defer pprof.StopCPUProfile()
	}
	t0 := time.Now()
	prog, err := interp.Load(spec.Repo, overlay, spec.Patterns, []string{"GOFLAGS=-mod=mod", "GOPROXY=off", "GOSUMDB=off", "GOTOOLCHAIN=local"})
	if err != nil {
		fmt.Fprintln(os.Stderr, "load:", err)
		os.Exit(2)
	}
	loadS := time.Since(t0).Seconds()
	workers := spec.Workers
	if workers <= 0 {
		workers = 8
	}
	outs := make([]JobOut, len(spec.Jobs))
	var wg sync.WaitGroup
	sem := make(chan struct{}, workers)
	for k := range spec.Jobs {
		wg.Add(1)
		sem <- struct{}{}
		go func(k int) {
			defer wg.Done()
			defer func() { <-sem }()
			js := spec.Jobs[k]
			job := interp.Job{
				Package: js.Package, Func: js.Func, Params: js.Params, Math: js.Math, NoIfConv: js.NoIfConv, FloatSplit: js.FloatSplit,
				Sched: js.Sched, Preempt: js.Preempt, Witnesses: js.Witnesses, KnownIDs: js.KnownIDs,
				Solver: js.Solver, InitAllow: js.InitAllow, Models: js.Models, Trace: js.Trace, SolverLog: js.SolverLog, OneShotMin: js.OneShotMin, FSModel: js.FSModel, MaxFaults: js.MaxFaults,
			}
			job.Limits = interp.Limits{MaxPaths: js.MaxPaths, MaxInstrs: js.MaxInstrs, Unwind: js.Unwind,
				SplitCap: js.SplitCap, MaxViolations: js.MaxViol}
			if js.TimeoutS > 0 {
				job.Limits.Deadline = time.Now().Add(time.Duration(js.TimeoutS) * time.Second)
			}
			var res *interp.Result
			func() {
				defer func() {
					if p := recover(); p != nil {
						res = &interp.Result{Undecided: []string{fmt.Sprintf("engine panic: %v", p)}}
					}
				}()
				res = prog.Run(job)
			}()
			st := res.Stats
			outs[k] = JobOut{ID: js.ID, Package: js.Package, Func: js.Func, Params: js.Params, Math: js.Math,
				Paths: st.Paths, PathsDone: st.PathsDone, PathsAssume: st.PathsAssume, PathsViol: st.PathsViol,
				Queries: st.Queries, SolverS: st.SolverTime.Seconds(), WallS: res.Wall.Seconds(), Instrs: st.Instrs,
				Asserts: st.AssertChecks, AssertsConst: st.AssertConst, Reached: st.Reached, Obligations: st.Obligations,
				Regions: st.Regions, RegionAborts: st.RegionAborts, MaxDepth: st.MaxDepth, Unknowns: st.Unknowns, XChecked: res.XChecked, XAgree: res.XAgree, XUnknown: res.XUnknown, Retries: res.Retries, RetriesOK: res.RetriesDecided,
				Exhausted: res.Exhausted, Violations: res.Violations, Witnesses: res.Witnesses, Undecided: res.Undecided}
		}(k)
	}
	wg.Wait()
	out := map[string]interface{}{"load_s": loadS, "jobs": outs, "total_s": time.Since(t0).Seconds()}
	enc := json.NewEncoder(os.Stdout)
	enc.SetIndent("", " ")
	enc.Encode(out)
}
