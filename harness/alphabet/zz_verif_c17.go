package alphabet

// C17 — alphabets map letters, indices and complements consistently.

func verifC17Builtin(k int) (Alphabet, Complementor) {
	switch k {
	case 0:
		return DNA, DNA
	case 1:
		return DNAgapped, DNAgapped
	case 2:
		return DNAredundant, DNAredundant
	case 3:
		return RNA, RNA
	case 4:
		return RNAgapped, RNAgapped
	case 5:
		return RNAredundant, RNAredundant
	}
	return Protein, nil
}

func verifLower(l Letter) Letter {
	if l >= 'A' && l <= 'Z' {
		return l + ('a' - 'A')
	}
	return l
}

// VerifC17_Builtin: definitional laws of the seven built-in alphabets for an
// arbitrary letter value and an arbitrary index.
func VerifC17_Builtin() {
	which := verifParam("alphabet")
	a, comp := verifC17Builtin(which)
	l := Letter(verifByte("l", 0, 255))
	letters := a.Letters()

	// valid <=> occurs in Letters()
	occurs := false
	for i := 0; i < len(letters); i++ {
		if Letter(letters[i]) == l {
			occurs = true
		}
	}
	verifAssert(a.IsValid(l) == occurs, "valid-iff-in-definition")
	verifAssert(a.ValidLetters()[l] == occurs, "validletters-table")

	// IndexOf / Letter inverse
	n := a.Len()
	i := verifInt("i", 0, n-1)
	verifAssert(a.IndexOf(a.Letter(i)) == i, "indexof-letter-inverse")
	idx := a.IndexOf(l)
	if occurs {
		verifAssert(idx >= 0 && idx < n, "index-in-range")
		if idx >= 0 && idx < n {
			verifAssert(verifLower(a.Letter(idx)) == verifLower(l), "letter-indexof-inverse-up-to-case")
		}
	} else {
		verifAssert(idx < 0, "invalid-index-negative")
	}
	verifAssert((*a.LetterIndex())[l] == idx, "letterindex-table")

	// AllValid on a short slice
	m := verifParam("slice")
	s := make([]Letter, m)
	for j := range s {
		s[j] = Letter(verifByte("s"+string(rune('0'+j)), 0, 255))
	}
	first := -1
	for j := len(s) - 1; j >= 0; j-- {
		if !a.IsValid(s[j]) {
			first = j
		}
	}
	ok, pos := a.AllValid(s)
	verifAssert(ok == (first < 0), "allvalid-ok")
	verifAssert(pos == first, "allvalid-first-invalid")

	if comp != nil {
		c, cok := comp.Complement(l)
		tab := comp.ComplementTable()
		verifAssert(len(tab) == 256, "table-size")
		if cok {
			verifAssert(tab[l] == c, "table-agrees-with-method")
			verifAssert(tab[l]&0x80 == 0, "table-high-bit-clear-when-ok")
			c2, cok2 := comp.Complement(c)
			verifAssert(cok2 && c2 == l, "complement-involution")
			isUp := l >= 'A' && l <= 'Z'
			isLow := l >= 'a' && l <= 'z'
			cUp := c >= 'A' && c <= 'Z'
			cLow := c >= 'a' && c <= 'z'
			verifAssert(isUp == cUp && isLow == cLow, "complement-case-preserving")
		} else {
			verifAssert(tab[l]&0x80 != 0, "table-high-bit-set-when-not-ok")
			verifAssert(c == l, "complement-unchanged-when-not-ok")
		}
		if occurs {
			verifAssert(cok, "valid-has-complement")
			verifAssert(a.IsValid(c), "complement-of-valid-is-valid")
			if n == 4 {
				verifAssert(a.IndexOf(c) == 3-a.IndexOf(l), "index-of-complement-is-3-minus")
			}
		}
	}
	verifObserve("c17", int(l), i, idx, occurs)
	verifReach("end")
}
