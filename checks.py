"""Per-property check definitions: harness instantiations (shapes) per tier."""

CHECKS = {}


def c17_jobs(tier):
    jobs = []
    sl = 2 if tier == "quick" else 4
    for a in range(7):
        jobs.append({"pkgdir": "alphabet", "func": "VerifC17_Builtin", "params": {"alphabet": a, "slice": sl}})
    return jobs


CHECKS["C17"] = {
    "jobs": c17_jobs,
    "functions": ["alphabet.newAlphabet", "alphabet.NewPairing", "alphabet.NewComplementor", "(*alpha).IsValid/IndexOf/Letter/AllValid/LetterIndex/ValidLetters/Letters",
                  "(*Pairing).Complement/ComplementTable", "strings.ToLower/ToUpper/IndexFunc (executed, not modelled)"],
    "explanation": "bounded symbolic execution of the real alphabet code; the letter is one symbolic byte covering all 256 values in a single query per law",
    "outside": "definition strings longer than the stated length; non-ASCII definitions beyond the concrete samples",
}
