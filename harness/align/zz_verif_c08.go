package align

// C08 — aligners return an optimal-scoring alignment (oracle: explicit enumeration of
// every competing alignment, scored from letters/matrix/gap model by harness code that
// shares nothing with the DP kernels).
// C09 — alignment descriptions are well formed, faithfully scored, type independent.

import (
	"github.com/biogo/biogo/alphabet"
	"github.com/biogo/biogo/feat"
)

type verifSeq struct {
	alpha alphabet.Alphabet
	s     alphabet.Slice
}

func (v verifSeq) Alphabet() alphabet.Alphabet { return v.alpha }
func (v verifSeq) Slice() alphabet.Slice       { return v.s }
func (v verifSeq) SetSlice(s alphabet.Slice)   {}

var verifAlphaCache = map[int]alphabet.Alphabet{}

// verifAlpha returns the alphabet "-ab" (k=2) or "-abc" (k=3): gap first.
func verifAlpha(k int) alphabet.Alphabet {
	if a, ok := verifAlphaCache[k]; ok {
		return a
	}
	def := "-abcdef"[:k+1]
	a, err := alphabet.NewAlphabet(def, 0, '-', 'n', true)
	if err != nil {
		panic(err)
	}
	verifAlphaCache[k] = a
	return a
}

// verifLetters returns n symbolic letters over the first k letters and their 1-based indices.
func verifLetters(name string, n, k int) (alphabet.Letters, []int) {
	ls := make(alphabet.Letters, n)
	ix := make([]int, n)
	for i := range ls {
		var b byte
		if verifParam("split") == 2 {
			// fixed letters (a scrambled pattern over the alphabet), symbolic scores only: longer
			// sequences, every table stride and border exercised
			off := 0
			if name == "q" {
				off = 1
			}
			b = byte('a' + (i*i+i/2+off)%k)
		} else {
			b = verifByte(name+string(rune('0'+i)), 'a', byte('a'+k-1))
		}
		if verifParam("split") == 1 {
			// case-split the letter (each value is explored); scores stay symbolic
			b = byte(verifConcrete(int(b)))
		}
		ls[i] = alphabet.Letter(b)
		ix[i] = int(b-'a') + 1
	}
	return ls, ix
}

// verifMatrix returns a (k+1)x(k+1) symbolic matrix: gap row/column in [-g,0], the rest in [-s,s].
func verifMatrix(k, s, g int) ([][]int, []int) {
	let := k + 1
	mat := make([][]int, let)
	flat := make([]int, let*let)
	for i := 0; i < let; i++ {
		mat[i] = make([]int, let)
		for j := 0; j < let; j++ {
			name := "m" + string(rune('0'+i)) + string(rune('0'+j))
			var v int
			switch {
			case i == 0 && j == 0:
				v = 0
			case i == 0 || j == 0:
				v = verifInt(name, -g, 0)
			default:
				v = verifInt(name, -s, s)
			}
			mat[i][j] = v
			flat[i*let+j] = v
		}
	}
	return mat, flat
}

type verifScores struct {
	firstLeft bool // set by enumAffine: the path reported last started with a gap in the reference
	lastGap   bool // set by enumAffine: the path reported last ended with a gap column
	n, m      int
	sub       [][]int // sub[i][j]: score of r[i] against q[j]
	gr        []int   // gap in query opposite r[i]  (matrix[r][gap])
	gq        []int   // gap in reference opposite q[j] (matrix[gap][q])
}

func verifScoreTables(ri, qi []int, flat []int, let int) *verifScores {
	s := &verifScores{n: len(ri), m: len(qi)}
	s.sub = make([][]int, s.n)
	s.gr = make([]int, s.n)
	s.gq = make([]int, s.m)
	for i := range ri {
		s.sub[i] = make([]int, s.m)
		for j := range qi {
			s.sub[i][j] = flat[ri[i]*let+qi[j]]
		}
		s.gr[i] = flat[ri[i]*let]
	}
	for j := range qi {
		s.gq[j] = flat[qi[j]]
	}
	return s
}

// verifEnumLinear calls f with the score of every monotone path from (i,j) to (i1,j1)
// under the linear gap model.
func (s *verifScores) enumLinear(i, j, i1, j1, acc int, f func(int)) {
	if i == i1 && j == j1 {
		f(acc)
		return
	}
	if i < i1 && j < j1 {
		s.enumLinear(i+1, j+1, i1, j1, acc+s.sub[i][j], f)
	}
	if i < i1 {
		s.enumLinear(i+1, j, i1, j1, acc+s.gr[i], f)
	}
	if j < j1 {
		s.enumLinear(i, j+1, i1, j1, acc+s.gq[j], f)
	}
}

// enumAffine: like enumLinear with a gap-open charge at the start of every run of gaps
// in one sequence (state: 0 none/diag, 1 gap-in-query run (up), 2 gap-in-reference run (left)).
// adj reports whether a gap in one sequence is immediately followed by a gap in the other.
func (s *verifScores) enumAffine(i, j, i1, j1, state, open, acc int, adj bool, f func(int, bool)) {
	s.enumAffine2(i, j, i1, j1, state, open, acc, adj, -1, f)
}

// first: -1 no step yet, otherwise the kind of the first step (0 diag, 1 up, 2 left).
func (s *verifScores) enumAffine2(i, j, i1, j1, state, open, acc int, adj bool, first int, f func(int, bool)) {
	if i == i1 && j == j1 {
		s.firstLeft = first == 2
		s.lastGap = state != 0
		f(acc, adj)
		return
	}
	if i < i1 && j < j1 {
		s.enumAffine2(i+1, j+1, i1, j1, 0, open, acc+s.sub[i][j], adj, verifFirst(first, 0), f)
	}
	if i < i1 {
		c := s.gr[i]
		if state != 1 {
			c += open
		}
		s.enumAffine2(i+1, j, i1, j1, 1, open, acc+c, adj || state == 2, verifFirst(first, 1), f)
	}
	if j < j1 {
		c := s.gq[j]
		if state != 2 {
			c += open
		}
		s.enumAffine2(i, j+1, i1, j1, 2, open, acc+c, adj || state == 1, verifFirst(first, 2), f)
	}
}

func verifFirst(first, kind int) int {
	if first < 0 {
		return kind
	}
	return first
}

func verifMkSeq(alpha alphabet.Alphabet, ls alphabet.Letters, qual bool, name string) verifSeq {
	if !qual {
		return verifSeq{alpha, ls}
	}
	ql := make(alphabet.QLetters, len(ls))
	for i, l := range ls {
		ql[i] = alphabet.QLetter{L: l, Q: alphabet.Qphred(verifByte(name+"q"+string(rune('0'+i)), 0, 40))}
	}
	return verifSeq{alpha, ql}
}

func verifAligner(which int, mat [][]int, open int) Aligner {
	switch which {
	case 0:
		return NW(mat)
	case 1:
		return SW(mat)
	case 2:
		return Fitted(mat)
	case 3:
		return NWAffine{Matrix: mat, GapOpen: open}
	case 4:
		return SWAffine{Matrix: mat, GapOpen: open}
	}
	return FittedAffine{Matrix: mat, GapOpen: open}
}

type verifPair struct{ a0, a1, b0, b1, score int }

func verifPairs(aln []feat.Pair) []verifPair {
	ps := make([]verifPair, len(aln))
	for k, p := range aln {
		f := p.Features()
		ps[k] = verifPair{f[0].Start(), f[0].End(), f[1].Start(), f[1].End(), p.(interface{ Score() int }).Score()}
	}
	return ps
}

// VerifC08_Optimal: the returned total score is >= the score of every competing alignment.
func VerifC08_Optimal() {
	which := verifParam("aligner")
	n, m, k := verifParam("n"), verifParam("m"), verifParam("k")
	qual := verifParam("qual") == 1
	alpha := verifAlpha(k)
	rl, ri := verifLetters("r", n, k)
	ql, qi := verifLetters("q", m, k)
	mat, flat := verifMatrix(k, verifParam("smax"), verifParam("gmax"))
	open := 0
	affine := which >= 3
	if affine {
		open = verifInt("open", -verifParam("gmax"), 0)
	}
	aln, err := verifAligner(which, mat, open).Align(verifMkSeq(alpha, rl, qual, "r"), verifMkSeq(alpha, ql, qual, "q"))
	verifAssert(err == nil, "no-error-on-valid-input")
	if err != nil {
		return
	}
	ps := verifPairs(aln)
	reported := 0
	for _, p := range ps {
		reported += p.score
	}
	sc := verifScoreTables(ri, qi, flat, k+1)
	// the score the returned alignment really has, recomputed from its geometry: optimality is
	// about this number, not about what the aligner says the score is
	got, wellFormed := 0, true
	for _, p := range ps {
		la, lb := p.a1-p.a0, p.b1-p.b0
		if la < 0 || lb < 0 || p.a0 < 0 || p.a1 > n || p.b0 < 0 || p.b1 > m || (la != lb && la != 0 && lb != 0) {
			wellFormed = false
			break
		}
		switch {
		case la == lb:
			for t := 0; t < la; t++ {
				got += sc.sub[p.a0+t][p.b0+t]
			}
		case lb == 0:
			if affine {
				got += open
			}
			for t := 0; t < la; t++ {
				got += sc.gr[p.a0+t]
			}
		default:
			if affine {
				got += open
			}
			for t := 0; t < lb; t++ {
				got += sc.gq[p.b0+t]
			}
		}
	}
	verifAssert(wellFormed, "returned-description-is-an-alignment")
	if !wellFormed {
		return
	}
	verifAssert(reported == got, "reported-total-is-the-score-of-the-returned-alignment")
	var comps, adjComps, endGapComps []int
	fitted := which%3 == 2
	enum := func(i, j, i1, j1 int) {
		if affine {
			sc.enumAffine(i, j, i1, j1, 0, open, 0, false, func(s int, adj bool) {
				if fitted && i > 0 && j < j1 && sc.firstLeft {
					// the free leading reference is modelled by the kernels as a gap run in the
					// query, so a leading gap in the reference is the same missing transition
					adj = true
				}
				if adj {
					adjComps = append(adjComps, s)
				} else if fitted && sc.lastGap {
					endGapComps = append(endGapComps, s)
				} else {
					comps = append(comps, s)
				}
			})
		} else {
			sc.enumLinear(i, j, i1, j1, 0, func(s int) { comps = append(comps, s) })
		}
	}
	switch which % 3 {
	case 0: // global
		enum(0, 0, n, m)
	case 1: // local: every sub-rectangle, and the empty alignment
		comps = append(comps, 0)
		for i0 := 0; i0 <= n; i0++ {
			for j0 := 0; j0 <= m; j0++ {
				for i1 := i0; i1 <= n; i1++ {
					for j1 := j0; j1 <= m; j1++ {
						if i0 == i1 && j0 == j1 {
							continue
						}
						enum(i0, j0, i1, j1)
					}
				}
			}
		}
	case 2: // fitted: whole query, free start in the reference, same reference end
		end := ps[len(ps)-1].a1
		qstart := ps[0].b0
		// known finding: the unconsumed query prefix is not reported as a leading gap pair
		verifKnown("C08-fitted-leading-query", qstart > 0)
		verifAssert(qstart == 0 && ps[len(ps)-1].b1 == m, "fitted-consumes-whole-query")
		for i0 := 0; i0 <= end; i0++ {
			enum(i0, 0, end, m)
		}
	}
	ok := true
	for _, s := range comps {
		ok = ok && got >= s
	}
	verifAssert(ok, "optimal")
	if len(adjComps) > 0 {
		// known finding: the affine recurrences never consider a gap in one sequence
		// immediately followed by a gap in the other
		okAdj := true
		for _, s := range adjComps {
			okAdj = okAdj && got >= s
		}
		verifKnown("C08-affine-adjacent-gaps", true)
		verifAssert(okAdj, "optimal-vs-adjacent-gap-alignments")
		verifKnown("C08-affine-adjacent-gaps", false)
	}
	if len(endGapComps) > 0 {
		// known finding: FittedAffine picks its end cell in the match layer only, so it is
		// optimal only among alignments whose last column is an aligned letter pair
		okEnd := true
		for _, s := range endGapComps {
			okEnd = okEnd && got >= s
		}
		verifKnown("C08-fittedaffine-end-in-gap", true)
		verifAssert(okEnd, "optimal-vs-alignments-ending-in-a-gap")
		verifKnown("C08-fittedaffine-end-in-gap", false)
	}
	verifObserve("c08", which, n, m, got, len(ps), len(comps), len(adjComps))
	verifReach("end")
}
