// Package sym implements hash-consed SMT terms with an eager simplifier and
// interval tracking. Sorts: Bool, bit-vectors of width 8..64, mathematical Int.
package sym

import (
	"fmt"
	"math"
	"math/bits"
	"sort"
	"strings"
)

type Sort uint8

const (
	SBool Sort = iota
	SBV
	SInt
)

type Op uint8

const (
	OConst Op = iota
	OVar
	ONot
	OAnd
	OOr
	OIte
	OEq
	// arithmetic shared by BV and Int
	OAdd
	OSub
	OMul
	ONeg
	// Int only
	OIDiv // SMT div (floor for positive divisor) -- we only emit Go-truncating forms via ite
	OIMod
	OLt // Int <
	OLe // Int <=
	// BV only
	OUDiv
	OURem
	OSDiv
	OSRem
	OBAnd
	OBOr
	OBXor
	OBNot
	OShl
	OLShr
	OAShr
	OUlt
	OUle
	OSlt
	OSle
	OZExt    // to width W
	OSExt    // to width W
	OExtract // low W bits
	OInt2BV  // Int -> BV W
	OBV2Int  // BV -> Int (unsigned)
)

var opNames = map[Op]string{
	ONot: "not", OAnd: "and", OOr: "or", OIte: "ite", OEq: "=",
	OAdd: "+", OSub: "-", OMul: "*", ONeg: "-", OIDiv: "div", OIMod: "mod", OLt: "<", OLe: "<=",
	OUDiv: "bvudiv", OURem: "bvurem", OSDiv: "bvsdiv", OSRem: "bvsrem", OBAnd: "bvand", OBOr: "bvor",
	OBXor: "bvxor", OBNot: "bvnot", OShl: "bvshl", OLShr: "bvlshr", OAShr: "bvashr",
	OUlt: "bvult", OUle: "bvule", OSlt: "bvslt", OSle: "bvsle",
}

var bvArith = map[Op]string{OAdd: "bvadd", OSub: "bvsub", OMul: "bvmul", ONeg: "bvneg"}

// Term is an immutable hash-consed node.
type Term struct {
	ID   int
	Op   Op
	Sort Sort
	W    uint8 // bit-vector width
	Args []*Term
	Val  uint64 // constants: bool 0/1; BV zero-extended; Int as int64 bits
	Name string
	// Interval. Int sort: [Lo,Hi] signed. BV sort: unsigned [ULo,UHi].
	Lo, Hi   int64
	ULo, UHi uint64
}

func (t *Term) IsConst() bool { return t.Op == OConst }
func (t *Term) IsTrue() bool  { return t.Op == OConst && t.Sort == SBool && t.Val == 1 }
func (t *Term) IsFalse() bool { return t.Op == OConst && t.Sort == SBool && t.Val == 0 }

// Int64 returns the constant value of an Int term.
func (t *Term) Int64() int64 { return int64(t.Val) }

// SignedVal returns the signed interpretation of a BV constant.
func (t *Term) SignedVal() int64 {
	if t.W == 64 {
		return int64(t.Val)
	}
	sh := 64 - uint(t.W)
	return int64(t.Val<<sh) >> sh
}

type Ctx struct {
	tab    map[string]*Term
	nextID int
	True   *Term
	False  *Term
	Vars   []*Term // declared variables in order
	NTerms int
}

func NewCtx() *Ctx {
	c := &Ctx{tab: make(map[string]*Term)}
	c.True = c.mk(&Term{Op: OConst, Sort: SBool, Val: 1})
	c.False = c.mk(&Term{Op: OConst, Sort: SBool, Val: 0})
	return c
}

func (c *Ctx) mk(t *Term) *Term {
	var sb strings.Builder
	fmt.Fprintf(&sb, "%d.%d.%d.%d.%s", t.Op, t.Sort, t.W, t.Val, t.Name)
	for _, a := range t.Args {
		fmt.Fprintf(&sb, ",%d", a.ID)
	}
	k := sb.String()
	if old, ok := c.tab[k]; ok {
		return old
	}
	t.ID = c.nextID
	c.nextID++
	c.NTerms++
	c.setInterval(t)
	c.tab[k] = t
	return t
}

func mask(w uint8) uint64 {
	if w >= 64 {
		return math.MaxUint64
	}
	return (uint64(1) << w) - 1
}

func (c *Ctx) Bool(b bool) *Term {
	if b {
		return c.True
	}
	return c.False
}

func (c *Ctx) BV(v uint64, w uint8) *Term {
	return c.mk(&Term{Op: OConst, Sort: SBV, W: w, Val: v & mask(w)})
}

func (c *Ctx) Int(v int64) *Term {
	return c.mk(&Term{Op: OConst, Sort: SInt, Val: uint64(v)})
}

// VarBV declares a bit-vector variable with an unsigned interval hint (the
// caller is responsible for asserting the range).
func (c *Ctx) VarBV(name string, w uint8) *Term {
	t := c.mk(&Term{Op: OVar, Sort: SBV, W: w, Name: name})
	c.noteVar(t)
	return t
}

// VarBVRange declares a bit-vector variable with an unsigned interval hint (the
// caller asserts the range to the solver).
func (c *Ctx) VarBVRange(name string, w uint8, ulo, uhi uint64) *Term {
	k := fmt.Sprintf("%d.%d.%d.%d.%s", OVar, SBV, w, 0, name)
	if old, ok := c.tab[k]; ok {
		return old
	}
	t := &Term{Op: OVar, Sort: SBV, W: w, Name: name}
	t.ID = c.nextID
	c.nextID++
	t.ULo, t.UHi = ulo, uhi
	c.tab[k] = t
	c.noteVar(t)
	return t
}

func (c *Ctx) VarInt(name string, lo, hi int64) *Term {
	k := fmt.Sprintf("%d.%d.%d.%d.%s", OVar, SInt, 0, 0, name)
	if old, ok := c.tab[k]; ok {
		return old
	}
	t := &Term{Op: OVar, Sort: SInt, Name: name}
	t.ID = c.nextID
	c.nextID++
	t.Lo, t.Hi = lo, hi
	c.tab[k] = t
	c.noteVar(t)
	return t
}

// RangeConstraint builds lo <= t <= hi without interval-based simplification
// (used to assert the declared range of a variable whose interval hint already says so).
func (c *Ctx) RangeConstraint(t *Term, lo, hi int64) *Term {
	if t.Sort == SInt {
		a := c.mk(&Term{Op: OLe, Sort: SBool, Args: []*Term{c.Int(lo), t}})
		b := c.mk(&Term{Op: OLe, Sort: SBool, Args: []*Term{t, c.Int(hi)}})
		return c.mk(&Term{Op: OAnd, Sort: SBool, Args: []*Term{a, b}})
	}
	op := OSle
	if lo >= 0 {
		op = OUle
	}
	a := c.mk(&Term{Op: op, Sort: SBool, Args: []*Term{c.BV(uint64(lo), t.W), t}})
	b := c.mk(&Term{Op: op, Sort: SBool, Args: []*Term{t, c.BV(uint64(hi), t.W)}})
	return c.mk(&Term{Op: OAnd, Sort: SBool, Args: []*Term{a, b}})
}

func (c *Ctx) VarBool(name string) *Term {
	t := c.mk(&Term{Op: OVar, Sort: SBool, Name: name})
	c.noteVar(t)
	return t
}

func (c *Ctx) noteVar(t *Term) {
	for _, v := range c.Vars {
		if v == t {
			return
		}
	}
	c.Vars = append(c.Vars, t)
}

// ---------------------------------------------------------------------------
// intervals

func satAdd(a, b int64) int64 {
	s := a + b
	if a > 0 && b > 0 && s < 0 {
		return math.MaxInt64
	}
	if a < 0 && b < 0 && s >= 0 {
		return math.MinInt64
	}
	return s
}

func satMul(a, b int64) int64 {
	if a == 0 || b == 0 {
		return 0
	}
	hi, lo := bits.Mul64(uint64(abs64(a)), uint64(abs64(b)))
	neg := (a < 0) != (b < 0)
	if hi != 0 || lo > math.MaxInt64 {
		if neg {
			return math.MinInt64
		}
		return math.MaxInt64
	}
	if neg {
		return -int64(lo)
	}
	return int64(lo)
}

func abs64(a int64) int64 {
	if a < 0 {
		if a == math.MinInt64 {
			return math.MaxInt64
		}
		return -a
	}
	return a
}

func min64(a, b int64) int64 {
	if a < b {
		return a
	}
	return b
}
func max64(a, b int64) int64 {
	if a > b {
		return a
	}
	return b
}
func minU(a, b uint64) uint64 {
	if a < b {
		return a
	}
	return b
}
func maxU(a, b uint64) uint64 {
	if a > b {
		return a
	}
	return b
}

func (c *Ctx) setInterval(t *Term) {
	switch t.Sort {
	case SInt:
		t.Lo, t.Hi = math.MinInt64, math.MaxInt64
		switch t.Op {
		case OConst:
			t.Lo, t.Hi = int64(t.Val), int64(t.Val)
		case OAdd:
			lo, hi := int64(0), int64(0)
			for _, a := range t.Args {
				lo, hi = satAdd(lo, a.Lo), satAdd(hi, a.Hi)
			}
			t.Lo, t.Hi = lo, hi
		case OSub:
			t.Lo, t.Hi = satAdd(t.Args[0].Lo, -satClamp(t.Args[1].Hi)), satAdd(t.Args[0].Hi, -satClamp(t.Args[1].Lo))
		case ONeg:
			t.Lo, t.Hi = -satClamp(t.Args[0].Hi), -satClamp(t.Args[0].Lo)
		case OMul:
			a, b := t.Args[0], t.Args[1]
			p := []int64{satMul(a.Lo, b.Lo), satMul(a.Lo, b.Hi), satMul(a.Hi, b.Lo), satMul(a.Hi, b.Hi)}
			t.Lo, t.Hi = p[0], p[0]
			for _, x := range p[1:] {
				t.Lo, t.Hi = min64(t.Lo, x), max64(t.Hi, x)
			}
		case OIte:
			t.Lo, t.Hi = min64(t.Args[1].Lo, t.Args[2].Lo), max64(t.Args[1].Hi, t.Args[2].Hi)
		case OIMod:
			if d := t.Args[1]; d.IsConst() && int64(d.Val) > 0 {
				t.Lo, t.Hi = 0, int64(d.Val)-1
			}
		case OIDiv:
			a, d := t.Args[0], t.Args[1]
			if d.IsConst() && int64(d.Val) > 0 && a.Lo > math.MinInt64 && a.Hi < math.MaxInt64 {
				dv := int64(d.Val)
				t.Lo, t.Hi = floorDiv(a.Lo, dv), floorDiv(a.Hi, dv)
			}
		case OBV2Int:
			t.Lo = 0
			if t.Args[0].UHi <= math.MaxInt64 {
				t.Lo, t.Hi = int64(t.Args[0].ULo), int64(t.Args[0].UHi)
			}
		}
	case SBV:
		m := mask(t.W)
		t.ULo, t.UHi = 0, m
		switch t.Op {
		case OConst:
			t.ULo, t.UHi = t.Val, t.Val
		case OZExt:
			t.ULo, t.UHi = t.Args[0].ULo, t.Args[0].UHi
		case OExtract:
			if t.Args[0].UHi <= m {
				t.ULo, t.UHi = t.Args[0].ULo, t.Args[0].UHi
			}
		case OAdd:
			lo, hi, ok := uint64(0), uint64(0), true
			for _, a := range t.Args {
				var c1, c2 uint64
				lo, c1 = bits.Add64(lo, a.ULo, 0)
				hi, c2 = bits.Add64(hi, a.UHi, 0)
				if c1 != 0 || c2 != 0 || hi > m {
					ok = false
					break
				}
			}
			if ok {
				t.ULo, t.UHi = lo, hi
			}
		case OSub:
			a, b := t.Args[0], t.Args[1]
			if a.ULo >= b.UHi {
				t.ULo, t.UHi = a.ULo-b.UHi, a.UHi-b.ULo
			}
		case OMul:
			a, b := t.Args[0], t.Args[1]
			h, l := bits.Mul64(a.UHi, b.UHi)
			if h == 0 && l <= m {
				t.ULo, t.UHi = a.ULo*b.ULo, l
			}
		case OBAnd:
			t.UHi = minU(t.Args[0].UHi, t.Args[1].UHi)
		case OBOr, OBXor:
			hb := maxU(t.Args[0].UHi, t.Args[1].UHi)
			if hb != 0 {
				n := bits.Len64(hb)
				t.UHi = mask(uint8(n)) & m
			} else {
				t.UHi = 0
			}
		case OLShr:
			if s := t.Args[1]; s.IsConst() && s.Val < 64 {
				t.ULo, t.UHi = t.Args[0].ULo>>s.Val, t.Args[0].UHi>>s.Val
			} else {
				t.UHi = t.Args[0].UHi
			}
		case OShl:
			if s := t.Args[1]; s.IsConst() && s.Val < 64 {
				a := t.Args[0]
				if bits.Len64(a.UHi)+int(s.Val) <= int(t.W) {
					t.ULo, t.UHi = a.ULo<<s.Val, a.UHi<<s.Val
				}
			}
		case OURem:
			if d := t.Args[1]; d.ULo > 0 {
				t.UHi = minU(t.Args[0].UHi, d.UHi-1)
			}
		case OUDiv:
			if d := t.Args[1]; d.ULo > 0 {
				t.ULo, t.UHi = t.Args[0].ULo/d.UHi, t.Args[0].UHi/d.ULo
			}
		case OIte:
			t.ULo, t.UHi = minU(t.Args[1].ULo, t.Args[2].ULo), maxU(t.Args[1].UHi, t.Args[2].UHi)
		}
	}
}

func satClamp(a int64) int64 {
	if a == math.MinInt64 {
		return -math.MaxInt64
	}
	return a
}

func floorDiv(a, d int64) int64 {
	q := a / d
	if (a%d != 0) && ((a < 0) != (d < 0)) {
		q--
	}
	return q
}

// ---------------------------------------------------------------------------
// boolean constructors

func (c *Ctx) Not(a *Term) *Term {
	if a.IsConst() {
		return c.Bool(a.Val == 0)
	}
	if a.Op == ONot {
		return a.Args[0]
	}
	return c.mk(&Term{Op: ONot, Sort: SBool, Args: []*Term{a}})
}

func (c *Ctx) And(a, b *Term) *Term {
	if a.IsFalse() || b.IsFalse() {
		return c.False
	}
	if a.IsTrue() {
		return b
	}
	if b.IsTrue() || a == b {
		return a
	}
	if c.Not(a) == b {
		return c.False
	}
	if a.ID > b.ID {
		a, b = b, a
	}
	return c.mk(&Term{Op: OAnd, Sort: SBool, Args: []*Term{a, b}})
}

func (c *Ctx) Or(a, b *Term) *Term {
	if a.IsTrue() || b.IsTrue() {
		return c.True
	}
	if a.IsFalse() {
		return b
	}
	if b.IsFalse() || a == b {
		return a
	}
	if c.Not(a) == b {
		return c.True
	}
	if a.ID > b.ID {
		a, b = b, a
	}
	return c.mk(&Term{Op: OOr, Sort: SBool, Args: []*Term{a, b}})
}

func (c *Ctx) Implies(a, b *Term) *Term { return c.Or(c.Not(a), b) }

func (c *Ctx) Ite(cond, a, b *Term) *Term {
	if cond.IsTrue() {
		return a
	}
	if cond.IsFalse() {
		return b
	}
	if a == b {
		return a
	}
	if a.Sort == SBool {
		if a.IsTrue() && b.IsFalse() {
			return cond
		}
		if a.IsFalse() && b.IsTrue() {
			return c.Not(cond)
		}
		if a.IsTrue() {
			return c.Or(cond, b)
		}
		if a.IsFalse() {
			return c.And(c.Not(cond), b)
		}
		if b.IsTrue() {
			return c.Or(c.Not(cond), a)
		}
		if b.IsFalse() {
			return c.And(cond, a)
		}
	}
	if cond.Op == ONot {
		return c.Ite(cond.Args[0], b, a)
	}
	// ite(c, x, ite(c, y, z)) = ite(c, x, z)
	if b.Op == OIte && b.Args[0] == cond {
		return c.Ite(cond, a, b.Args[2])
	}
	if a.Op == OIte && a.Args[0] == cond {
		return c.Ite(cond, a.Args[1], b)
	}
	return c.mk(&Term{Op: OIte, Sort: a.Sort, W: a.W, Args: []*Term{cond, a, b}})
}

// constLeaves reports whether t is an ite tree (bounded size) whose leaves are all constants.
func constLeaves(t *Term, budget *int) bool {
	if *budget <= 0 {
		return false
	}
	*budget--
	if t.Op == OConst {
		return true
	}
	if t.Op == OIte {
		return constLeaves(t.Args[1], budget) && constLeaves(t.Args[2], budget)
	}
	return false
}

func isConstTree(t *Term) bool {
	if t.Op != OIte {
		return false
	}
	b := 600
	return constLeaves(t, &b)
}

// mapLeaves rebuilds an ite tree applying f to the leaves (memoised per node).
func (c *Ctx) mapLeaves(t *Term, f func(*Term) *Term, memo map[*Term]*Term) *Term {
	if r, ok := memo[t]; ok {
		return r
	}
	var r *Term
	if t.Op == OIte {
		r = c.Ite(t.Args[0], c.mapLeaves(t.Args[1], f, memo), c.mapLeaves(t.Args[2], f, memo))
	} else {
		r = f(t)
	}
	memo[t] = r
	return r
}

// IsConstTree reports whether t is an ite tree with constant leaves.
func IsConstTree(t *Term) bool { return isConstTree(t) }

// MapLeaves rebuilds the ite tree t with f applied to its (constant) leaves.
func (c *Ctx) MapLeaves(t *Term, f func(*Term) *Term) *Term {
	return c.mapLeaves(t, f, map[*Term]*Term{})
}

// lift1 / lift2: distribute an operation through ite trees with constant leaves
// when the other operand is constant (or also such a tree, handled one side at a time).
func (c *Ctx) lift2(a, b *Term, f func(x, y *Term) *Term) (*Term, bool) {
	if isConstTree(a) && b.IsConst() {
		return c.mapLeaves(a, func(l *Term) *Term { return f(l, b) }, map[*Term]*Term{}), true
	}
	if a.IsConst() && isConstTree(b) {
		return c.mapLeaves(b, func(l *Term) *Term { return f(a, l) }, map[*Term]*Term{}), true
	}
	if a.Op == OIte && b.Op == OIte {
		ba, bb := 40, 40
		if constLeaves(a, &ba) && constLeaves(b, &bb) && (40-ba)*(40-bb) <= 400 {
			return c.mapLeaves(a, func(la *Term) *Term {
				return c.mapLeaves(b, func(lb *Term) *Term { return f(la, lb) }, map[*Term]*Term{})
			}, map[*Term]*Term{}), true
		}
	}
	return nil, false
}

func (c *Ctx) lift1(a *Term, f func(x *Term) *Term) (*Term, bool) {
	if isConstTree(a) {
		return c.mapLeaves(a, f, map[*Term]*Term{}), true
	}
	return nil, false
}

func (c *Ctx) Eq(a, b *Term) *Term {
	if a == b {
		return c.True
	}
	if a.IsConst() && b.IsConst() {
		return c.Bool(a.Val == b.Val)
	}
	if a.Sort == SBool {
		if a.IsTrue() {
			return b
		}
		if b.IsTrue() {
			return a
		}
		if a.IsFalse() {
			return c.Not(b)
		}
		if b.IsFalse() {
			return c.Not(a)
		}
	}
	if a.Sort == SInt && (a.Hi < b.Lo || b.Hi < a.Lo) {
		return c.False
	}
	if a.Sort == SBV && (a.UHi < b.ULo || b.UHi < a.ULo) {
		return c.False
	}
	if r, ok := c.lift2(a, b, c.Eq); ok {
		return r
	}
	// (x + k1) == k2  ->  x == k2-k1 (linear forms)
	if a.Sort != SBool {
		if d := c.Sub(a, b); d.IsConst() {
			return c.Bool(d.Val == 0)
		}
	}
	if a.ID > b.ID {
		a, b = b, a
	}
	return c.mk(&Term{Op: OEq, Sort: SBool, Args: []*Term{a, b}})
}

// ---------------------------------------------------------------------------
// linear normal form for + - neg and multiplication by constants

type lin struct {
	k     uint64 // constant (mod 2^w for BV, int64 bits for Int)
	atoms map[*Term]uint64
}

func (c *Ctx) linOf(t *Term, coef uint64, out *lin, depth int) {
	switch {
	case t.Op == OConst:
		out.k += coef * t.Val
	case t.Op == OAdd && depth < 64:
		for _, a := range t.Args {
			c.linOf(a, coef, out, depth+1)
		}
	case t.Op == OSub && depth < 64:
		c.linOf(t.Args[0], coef, out, depth+1)
		c.linOf(t.Args[1], -coef, out, depth+1)
	case t.Op == ONeg && depth < 64:
		c.linOf(t.Args[0], -coef, out, depth+1)
	case t.Op == OMul && t.Args[0].IsConst() && depth < 64:
		c.linOf(t.Args[1], coef*t.Args[0].Val, out, depth+1)
	case t.Op == OMul && t.Args[1].IsConst() && depth < 64:
		c.linOf(t.Args[0], coef*t.Args[1].Val, out, depth+1)
	default:
		out.atoms[t] += coef
	}
}

func (c *Ctx) constOf(like *Term, v uint64) *Term {
	if like.Sort == SBV {
		return c.BV(v, like.W)
	}
	return c.Int(int64(v))
}

func (c *Ctx) rebuild(like *Term, l *lin) *Term {
	m := uint64(math.MaxUint64)
	if like.Sort == SBV {
		m = mask(like.W)
	}
	type ac struct {
		a *Term
		k uint64
	}
	var as []ac
	for a, k := range l.atoms {
		k &= m
		if k != 0 {
			as = append(as, ac{a, k})
		}
	}
	sort.Slice(as, func(i, j int) bool { return as[i].a.ID < as[j].a.ID })
	k := l.k & m
	if len(as) == 0 {
		return c.constOf(like, k)
	}
	var pos, neg []*Term
	for _, x := range as {
		switch {
		case x.k == 1:
			pos = append(pos, x.a)
		case x.k == m: // -1
			neg = append(neg, x.a)
		default:
			// sign-aware: small negative coefficient
			if like.Sort == SInt && int64(x.k) < 0 {
				neg = append(neg, c.mkMul(c.Int(-int64(x.k)), x.a))
			} else {
				pos = append(pos, c.mkMul(c.constOf(like, x.k), x.a))
			}
		}
	}
	var res *Term
	if like.Sort == SInt && int64(k) < 0 && len(pos) > 0 {
		// x + (-3) -> x - 3
		neg = append(neg, c.Int(-int64(k)))
		k = 0
	}
	if k != 0 {
		pos = append(pos, c.constOf(like, k))
	}
	if len(pos) == 0 {
		if len(neg) == 1 {
			return c.mk(&Term{Op: ONeg, Sort: like.Sort, W: like.W, Args: []*Term{neg[0]}})
		}
		s := c.mk(&Term{Op: OAdd, Sort: like.Sort, W: like.W, Args: neg})
		return c.mk(&Term{Op: ONeg, Sort: like.Sort, W: like.W, Args: []*Term{s}})
	}
	if len(pos) == 1 {
		res = pos[0]
	} else {
		res = c.mk(&Term{Op: OAdd, Sort: like.Sort, W: like.W, Args: pos})
	}
	for _, n := range neg {
		res = c.mk(&Term{Op: OSub, Sort: like.Sort, W: like.W, Args: []*Term{res, n}})
	}
	return res
}

func (c *Ctx) mkMul(a, b *Term) *Term {
	if a.ID > b.ID && !a.IsConst() {
		a, b = b, a
	}
	return c.mk(&Term{Op: OMul, Sort: b.Sort, W: b.W, Args: []*Term{a, b}})
}

func (c *Ctx) linear(like *Term, parts []*Term, coefs []uint64) *Term {
	l := &lin{atoms: map[*Term]uint64{}}
	for i, p := range parts {
		c.linOf(p, coefs[i], l, 0)
	}
	if len(l.atoms) > 10 {
		// long running sums: flattening would destroy sharing (sum_i re-listing all of
		// sum_{i-1}); keep the binary node
		return c.rawLinear(like, parts, coefs)
	}
	return c.rebuild(like, l)
}

func (c *Ctx) rawLinear(like *Term, parts []*Term, coefs []uint64) *Term {
	m := uint64(math.MaxUint64)
	if like.Sort == SBV {
		m = mask(like.W)
	}
	var res *Term
	for i, p := range parts {
		k := coefs[i] & m
		var t *Term
		switch {
		case k == 1:
			t = p
		case k == m:
			if res == nil {
				t = c.mk(&Term{Op: ONeg, Sort: like.Sort, W: like.W, Args: []*Term{p}})
			} else {
				res = c.mk(&Term{Op: OSub, Sort: like.Sort, W: like.W, Args: []*Term{res, p}})
				continue
			}
		default:
			t = c.mkMul(c.constOf(like, k), p)
		}
		if res == nil {
			res = t
		} else {
			res = c.mk(&Term{Op: OAdd, Sort: like.Sort, W: like.W, Args: []*Term{res, t}})
		}
	}
	return res
}

func (c *Ctx) Add(a, b *Term) *Term {
	if a.IsConst() && b.IsConst() {
		return c.constOf(a, a.Val+b.Val)
	}
	if r, ok := c.lift2(a, b, c.Add); ok {
		return r
	}
	return c.linear(a, []*Term{a, b}, []uint64{1, 1})
}

func (c *Ctx) Sub(a, b *Term) *Term {
	if a == b {
		return c.constOf(a, 0)
	}
	if a.IsConst() && b.IsConst() {
		return c.constOf(a, a.Val-b.Val)
	}
	if r, ok := c.lift2(a, b, c.Sub); ok {
		return r
	}
	return c.linear(a, []*Term{a, b}, []uint64{1, ^uint64(0)})
}

func (c *Ctx) Neg(a *Term) *Term {
	if a.IsConst() {
		return c.constOf(a, -a.Val)
	}
	return c.linear(a, []*Term{a}, []uint64{^uint64(0)})
}

func (c *Ctx) Mul(a, b *Term) *Term {
	if a.IsConst() && b.IsConst() {
		return c.constOf(a, a.Val*b.Val)
	}
	if r, ok := c.lift2(a, b, c.Mul); ok {
		return r
	}
	if a.IsConst() {
		return c.linear(b, []*Term{b}, []uint64{a.Val})
	}
	if b.IsConst() {
		return c.linear(a, []*Term{a}, []uint64{b.Val})
	}
	return c.mkMul(a, b)
}

// ---------------------------------------------------------------------------
// Int comparisons and division

func (c *Ctx) Lt(a, b *Term) *Term {
	if a.IsConst() && b.IsConst() {
		return c.Bool(int64(a.Val) < int64(b.Val))
	}
	if a.Hi < b.Lo {
		return c.True
	}
	if a.Lo >= b.Hi {
		return c.False
	}
	if a == b {
		return c.False
	}
	if r, ok := c.lift2(a, b, c.Lt); ok {
		return r
	}
	if d := c.Sub(a, b); d.IsConst() {
		return c.Bool(int64(d.Val) < 0)
	}
	return c.mk(&Term{Op: OLt, Sort: SBool, Args: []*Term{a, b}})
}

func (c *Ctx) Le(a, b *Term) *Term {
	if a.IsConst() && b.IsConst() {
		return c.Bool(int64(a.Val) <= int64(b.Val))
	}
	if a.Hi <= b.Lo {
		return c.True
	}
	if a.Lo > b.Hi {
		return c.False
	}
	if a == b {
		return c.True
	}
	if r, ok := c.lift2(a, b, c.Le); ok {
		return r
	}
	if d := c.Sub(a, b); d.IsConst() {
		return c.Bool(int64(d.Val) <= 0)
	}
	return c.mk(&Term{Op: OLe, Sort: SBool, Args: []*Term{a, b}})
}

// IDivFloor / IModFloor are SMT-LIB div/mod (callers build Go's truncated semantics on top).
func (c *Ctx) IDivFloor(a, b *Term) *Term {
	if a.IsConst() && b.IsConst() && int64(b.Val) != 0 {
		bv := int64(b.Val)
		av := int64(a.Val)
		// SMT-LIB: a = b*q + r, 0 <= r < |b|
		r := av % bv
		if r < 0 {
			r += abs64(bv)
		}
		return c.Int((av - r) / bv)
	}
	return c.mk(&Term{Op: OIDiv, Sort: SInt, Args: []*Term{a, b}})
}

func (c *Ctx) IModFloor(a, b *Term) *Term {
	if a.IsConst() && b.IsConst() && int64(b.Val) != 0 {
		r := int64(a.Val) % int64(b.Val)
		if r < 0 {
			r += abs64(int64(b.Val))
		}
		return c.Int(r)
	}
	if b.IsConst() && int64(b.Val) > 0 && a.Lo >= 0 && a.Hi < int64(b.Val) {
		return a
	}
	return c.mk(&Term{Op: OIMod, Sort: SInt, Args: []*Term{a, b}})
}

// ---------------------------------------------------------------------------
// BV operations

func (c *Ctx) bvBin(op Op, a, b *Term, fold func(x, y uint64) (uint64, bool)) *Term {
	if a.IsConst() && b.IsConst() {
		if v, ok := fold(a.Val, b.Val); ok {
			return c.BV(v, a.W)
		}
	}
	if r, ok := c.lift2(a, b, func(x, y *Term) *Term { return c.bvBin(op, x, y, fold) }); ok {
		return r
	}
	return c.mk(&Term{Op: op, Sort: SBV, W: a.W, Args: []*Term{a, b}})
}

func sx(v uint64, w uint8) int64 {
	sh := 64 - uint(w)
	return int64(v<<sh) >> sh
}

// narrowWidth returns a smaller standard width that holds both operands' values (0 if none).
func narrowWidth(a, b *Term) uint8 {
	hi := maxU(a.UHi, b.UHi)
	for _, w := range []uint8{8, 16, 32} {
		if w < a.W && hi <= mask(w) {
			return w
		}
	}
	return 0
}

func (c *Ctx) UDiv(a, b *Term) *Term {
	if !(a.IsConst() && b.IsConst()) && b.ULo > 0 {
		if w := narrowWidth(a, b); w != 0 {
			// both operands are small: divide in the narrow width (cheaper to bit-blast)
			return c.ZExt(c.UDiv(c.Extract(a, w), c.Extract(b, w)), a.W)
		}
	}
	return c.bvBin(OUDiv, a, b, func(x, y uint64) (uint64, bool) {
		if y == 0 {
			return 0, false
		}
		return x / y, true
	})
}
func (c *Ctx) URem(a, b *Term) *Term {
	if b.IsConst() && b.Val != 0 && a.UHi < b.Val {
		return a
	}
	if !(a.IsConst() && b.IsConst()) && b.ULo > 0 {
		if w := narrowWidth(a, b); w != 0 {
			return c.ZExt(c.URem(c.Extract(a, w), c.Extract(b, w)), a.W)
		}
	}
	return c.bvBin(OURem, a, b, func(x, y uint64) (uint64, bool) {
		if y == 0 {
			return 0, false
		}
		return x % y, true
	})
}
func (c *Ctx) SDiv(a, b *Term) *Term {
	w := a.W
	return c.bvBin(OSDiv, a, b, func(x, y uint64) (uint64, bool) {
		if y == 0 {
			return 0, false
		}
		sxv, syv := sx(x, w), sx(y, w)
		if syv == -1 {
			return uint64(-sxv), true
		}
		return uint64(sxv / syv), true
	})
}
func (c *Ctx) SRem(a, b *Term) *Term {
	w := a.W
	return c.bvBin(OSRem, a, b, func(x, y uint64) (uint64, bool) {
		if y == 0 {
			return 0, false
		}
		sxv, syv := sx(x, w), sx(y, w)
		if syv == -1 {
			return 0, true
		}
		return uint64(sxv % syv), true
	})
}
func (c *Ctx) BAnd(a, b *Term) *Term {
	if a == b {
		return a
	}
	if b.IsConst() && b.Val == 0 || a.IsConst() && a.Val == 0 {
		return c.BV(0, a.W)
	}
	if b.IsConst() && b.Val == mask(b.W) {
		return a
	}
	if a.IsConst() && a.Val == mask(a.W) {
		return b
	}
	// x & (2^k-1) where x already within
	if b.IsConst() && b.Val&(b.Val+1) == 0 && a.UHi <= b.Val {
		return a
	}
	return c.bvBin(OBAnd, a, b, func(x, y uint64) (uint64, bool) { return x & y, true })
}
func (c *Ctx) BOr(a, b *Term) *Term {
	if a == b {
		return a
	}
	if b.IsConst() && b.Val == 0 {
		return a
	}
	if a.IsConst() && a.Val == 0 {
		return b
	}
	return c.bvBin(OBOr, a, b, func(x, y uint64) (uint64, bool) { return x | y, true })
}
func (c *Ctx) BXor(a, b *Term) *Term {
	if a == b {
		return c.BV(0, a.W)
	}
	return c.bvBin(OBXor, a, b, func(x, y uint64) (uint64, bool) { return x ^ y, true })
}
func (c *Ctx) BNot(a *Term) *Term {
	if a.IsConst() {
		return c.BV(^a.Val, a.W)
	}
	if r, ok := c.lift1(a, c.BNot); ok {
		return r
	}
	return c.mk(&Term{Op: OBNot, Sort: SBV, W: a.W, Args: []*Term{a}})
}

// Shift amounts are BV terms of the same width as a (callers extend/saturate).
func (c *Ctx) Shl(a, s *Term) *Term {
	if s.IsConst() && s.Val == 0 {
		return a
	}
	w := a.W
	return c.bvBin(OShl, a, s, func(x, y uint64) (uint64, bool) {
		if y >= uint64(w) {
			return 0, true
		}
		return x << y, true
	})
}
func (c *Ctx) LShr(a, s *Term) *Term {
	if s.IsConst() && s.Val == 0 {
		return a
	}
	w := a.W
	return c.bvBin(OLShr, a, s, func(x, y uint64) (uint64, bool) {
		if y >= uint64(w) {
			return 0, true
		}
		return x >> y, true
	})
}
func (c *Ctx) AShr(a, s *Term) *Term {
	if s.IsConst() && s.Val == 0 {
		return a
	}
	w := a.W
	return c.bvBin(OAShr, a, s, func(x, y uint64) (uint64, bool) {
		if y >= uint64(w) {
			y = uint64(w) - 1
		}
		return uint64(sx(x, w) >> y), true
	})
}

func (c *Ctx) bvCmp(op Op, a, b *Term, fold func(x, y uint64) bool) *Term {
	if a.IsConst() && b.IsConst() {
		return c.Bool(fold(a.Val, b.Val))
	}
	if r, ok := c.lift2(a, b, func(x, y *Term) *Term { return c.bvCmp(op, x, y, fold) }); ok {
		return r
	}
	return c.mk(&Term{Op: op, Sort: SBool, Args: []*Term{a, b}})
}

func (c *Ctx) Ult(a, b *Term) *Term {
	if a == b {
		return c.False
	}
	if a.UHi < b.ULo {
		return c.True
	}
	if a.ULo >= b.UHi {
		return c.False
	}
	return c.bvCmp(OUlt, a, b, func(x, y uint64) bool { return x < y })
}
func (c *Ctx) Ule(a, b *Term) *Term {
	if a == b {
		return c.True
	}
	if a.UHi <= b.ULo {
		return c.True
	}
	if a.ULo > b.UHi {
		return c.False
	}
	return c.bvCmp(OUle, a, b, func(x, y uint64) bool { return x <= y })
}

// nonNeg reports whether the signed interpretation is known non-negative.
func nonNeg(t *Term) bool { return t.UHi <= mask(t.W)>>1 }

func (c *Ctx) Slt(a, b *Term) *Term {
	if a == b {
		return c.False
	}
	if nonNeg(a) && nonNeg(b) {
		return c.Ult(a, b)
	}
	w := a.W
	return c.bvCmp(OSlt, a, b, func(x, y uint64) bool { return sx(x, w) < sx(y, w) })
}
func (c *Ctx) Sle(a, b *Term) *Term {
	if a == b {
		return c.True
	}
	if nonNeg(a) && nonNeg(b) {
		return c.Ule(a, b)
	}
	w := a.W
	return c.bvCmp(OSle, a, b, func(x, y uint64) bool { return sx(x, w) <= sx(y, w) })
}

func (c *Ctx) ZExt(a *Term, w uint8) *Term {
	if a.W == w {
		return a
	}
	if a.W > w {
		return c.Extract(a, w)
	}
	if a.IsConst() {
		return c.BV(a.Val, w)
	}
	if r, ok := c.lift1(a, func(x *Term) *Term { return c.ZExt(x, w) }); ok {
		return r
	}
	return c.mk(&Term{Op: OZExt, Sort: SBV, W: w, Args: []*Term{a}})
}

func (c *Ctx) SExt(a *Term, w uint8) *Term {
	if a.W == w {
		return a
	}
	if a.W > w {
		return c.Extract(a, w)
	}
	if a.IsConst() {
		return c.BV(uint64(sx(a.Val, a.W)), w)
	}
	if nonNeg(a) {
		return c.ZExt(a, w)
	}
	if r, ok := c.lift1(a, func(x *Term) *Term { return c.SExt(x, w) }); ok {
		return r
	}
	return c.mk(&Term{Op: OSExt, Sort: SBV, W: w, Args: []*Term{a}})
}

// Extract keeps the low w bits.
func (c *Ctx) Extract(a *Term, w uint8) *Term {
	if a.W == w {
		return a
	}
	if a.IsConst() {
		return c.BV(a.Val, w)
	}
	if (a.Op == OZExt || a.Op == OSExt) && a.Args[0].W == w {
		return a.Args[0]
	}
	if (a.Op == OZExt || a.Op == OSExt) && a.Args[0].W > w {
		return c.Extract(a.Args[0], w)
	}
	if a.Op == OZExt && a.Args[0].W < w {
		return c.ZExt(a.Args[0], w)
	}
	if r, ok := c.lift1(a, func(x *Term) *Term { return c.Extract(x, w) }); ok {
		return r
	}
	return c.mk(&Term{Op: OExtract, Sort: SBV, W: w, Args: []*Term{a}})
}

// ---------------------------------------------------------------------------
// printing (SMT-LIB2)

func SortString(t *Term) string {
	switch t.Sort {
	case SBool:
		return "Bool"
	case SInt:
		return "Int"
	}
	return fmt.Sprintf("(_ BitVec %d)", t.W)
}

func ConstString(t *Term) string {
	switch t.Sort {
	case SBool:
		if t.Val == 1 {
			return "true"
		}
		return "false"
	case SInt:
		v := int64(t.Val)
		if v < 0 {
			if v == math.MinInt64 {
				return "(- 9223372036854775808)"
			}
			return fmt.Sprintf("(- %d)", -v)
		}
		return fmt.Sprintf("%d", v)
	}
	return fmt.Sprintf("(_ bv%d %d)", t.Val, t.W)
}

// Ref is how a term is referred to once defined.
func Ref(t *Term) string {
	switch t.Op {
	case OConst:
		return ConstString(t)
	case OVar:
		return "|" + t.Name + "|"
	}
	return fmt.Sprintf("t%d", t.ID)
}

// Body prints the defining expression of a non-leaf term in terms of Refs of its args.
func Body(t *Term) string {
	var sb strings.Builder
	switch t.Op {
	case OZExt:
		fmt.Fprintf(&sb, "((_ zero_extend %d) %s)", t.W-t.Args[0].W, Ref(t.Args[0]))
		return sb.String()
	case OSExt:
		fmt.Fprintf(&sb, "((_ sign_extend %d) %s)", t.W-t.Args[0].W, Ref(t.Args[0]))
		return sb.String()
	case OExtract:
		fmt.Fprintf(&sb, "((_ extract %d 0) %s)", t.W-1, Ref(t.Args[0]))
		return sb.String()
	case OInt2BV:
		fmt.Fprintf(&sb, "((_ int2bv %d) %s)", t.W, Ref(t.Args[0]))
		return sb.String()
	case OBV2Int:
		fmt.Fprintf(&sb, "(bv2int %s)", Ref(t.Args[0]))
		return sb.String()
	}
	name := opNames[t.Op]
	if t.Sort == SBV {
		if n, ok := bvArith[t.Op]; ok {
			name = n
		}
	}
	sb.WriteString("(")
	sb.WriteString(name)
	for _, a := range t.Args {
		sb.WriteString(" ")
		sb.WriteString(Ref(a))
	}
	sb.WriteString(")")
	return sb.String()
}

func (t *Term) String() string {
	switch t.Op {
	case OConst, OVar:
		return Ref(t)
	}
	var sb strings.Builder
	sb.WriteString("(")
	sb.WriteString(opNames[t.Op])
	if t.Op == OZExt || t.Op == OSExt || t.Op == OExtract {
		fmt.Fprintf(&sb, "ext%d", t.W)
	}
	for _, a := range t.Args {
		sb.WriteString(" ")
		sb.WriteString(a.String())
	}
	sb.WriteString(")")
	return sb.String()
}

// Eval evaluates t under a model (variable name -> value as uint64 bits; bool 0/1).
func Eval(t *Term, m map[string]uint64, memo map[*Term]uint64) uint64 {
	if v, ok := memo[t]; ok {
		return v
	}
	var r uint64
	a := func(i int) uint64 { return Eval(t.Args[i], m, memo) }
	b2u := func(b bool) uint64 {
		if b {
			return 1
		}
		return 0
	}
	mk := mask(t.W)
	if t.Sort != SBV {
		mk = math.MaxUint64
	}
	switch t.Op {
	case OConst:
		r = t.Val
	case OVar:
		r = m[t.Name]
		if t.Sort == SBV {
			r &= mk
		}
	case ONot:
		r = 1 - a(0)
	case OAnd:
		r = a(0) & a(1)
	case OOr:
		r = a(0) | a(1)
	case OIte:
		if a(0) == 1 {
			r = a(1)
		} else {
			r = a(2)
		}
	case OEq:
		r = b2u(a(0) == a(1))
	case OAdd:
		for i := range t.Args {
			r += a(i)
		}
		r &= mk
	case OSub:
		r = (a(0) - a(1)) & mk
	case OMul:
		r = (a(0) * a(1)) & mk
	case ONeg:
		r = (-a(0)) & mk
	case OLt:
		r = b2u(int64(a(0)) < int64(a(1)))
	case OLe:
		r = b2u(int64(a(0)) <= int64(a(1)))
	case OIDiv:
		x, y := int64(a(0)), int64(a(1))
		if y != 0 {
			rem := x % y
			if rem < 0 {
				rem += abs64(y)
			}
			r = uint64((x - rem) / y)
		}
	case OIMod:
		x, y := int64(a(0)), int64(a(1))
		if y != 0 {
			rem := x % y
			if rem < 0 {
				rem += abs64(y)
			}
			r = uint64(rem)
		}
	case OUDiv:
		if a(1) == 0 {
			r = mk
		} else {
			r = a(0) / a(1)
		}
	case OURem:
		if a(1) == 0 {
			r = a(0)
		} else {
			r = a(0) % a(1)
		}
	case OSDiv:
		x, y := sx(a(0), t.W), sx(a(1), t.W)
		if y == 0 {
			if x < 0 {
				r = 1
			} else {
				r = mk
			}
		} else if y == -1 {
			r = uint64(-x) & mk
		} else {
			r = uint64(x/y) & mk
		}
	case OSRem:
		x, y := sx(a(0), t.W), sx(a(1), t.W)
		if y == 0 {
			r = a(0)
		} else if y == -1 {
			r = 0
		} else {
			r = uint64(x%y) & mk
		}
	case OBAnd:
		r = a(0) & a(1)
	case OBOr:
		r = a(0) | a(1)
	case OBXor:
		r = a(0) ^ a(1)
	case OBNot:
		r = ^a(0) & mk
	case OShl:
		if a(1) >= uint64(t.W) {
			r = 0
		} else {
			r = (a(0) << a(1)) & mk
		}
	case OLShr:
		if a(1) >= uint64(t.W) {
			r = 0
		} else {
			r = a(0) >> a(1)
		}
	case OAShr:
		s := a(1)
		if s >= uint64(t.W) {
			s = uint64(t.W) - 1
		}
		r = uint64(sx(a(0), t.W)>>s) & mk
	case OUlt:
		r = b2u(a(0) < a(1))
	case OUle:
		r = b2u(a(0) <= a(1))
	case OSlt:
		w := t.Args[0].W
		r = b2u(sx(a(0), w) < sx(a(1), w))
	case OSle:
		w := t.Args[0].W
		r = b2u(sx(a(0), w) <= sx(a(1), w))
	case OZExt:
		r = a(0)
	case OSExt:
		r = uint64(sx(a(0), t.Args[0].W)) & mk
	case OExtract:
		r = a(0) & mk
	case OInt2BV:
		r = a(0) & mk
	case OBV2Int:
		r = a(0)
	default:
		panic("Eval: op")
	}
	memo[t] = r
	return r
}
