#!/usr/bin/env python3
"""vcheck — per-property driver: builds the overlay from /repo's current tree, runs gosym
(bounded symbolic execution + SMT), replays witnesses and counterexamples natively against
the real build, applies the known-findings fence, writes evidence/<id>.json.

usage: vcheck.py <property-id> quick|thorough        (exit 0 held / 1 violation / 2 undecided)
       vcheck.py replay <replay.json>
"""
import json, os, re, subprocess, sys, time, glob, shutil, hashlib

VERIF = os.path.dirname(os.path.abspath(__file__))
REPO = os.environ.get("VERIF_REPO", "/repo")
MODULE = "github.com/biogo/biogo"
GOENV = dict(os.environ, GOFLAGS="-mod=mod", GOPROXY="off", GOSUMDB="off", GOTOOLCHAIN="local")

sys.path.insert(0, VERIF)
import checks  # noqa: E402


DEFAULT_MODELS = {"fmt.Fprintf": MODULE + "/zz_verifmodel.Fprintf", "fmt.Fprint": MODULE + "/zz_verifmodel.Fprint",
                  "fmt.Fprintln": MODULE + "/zz_verifmodel.Fprintln"}


def sh(cmd, **kw):
    return subprocess.run(cmd, **kw)


def ensure_built():
    gosym = os.path.join(VERIF, "bin", "gosym")
    src_newer = False
    if os.path.exists(gosym):
        bt = os.path.getmtime(gosym)
        for root, _, files in os.walk(os.path.join(VERIF, "engine")):
            for f in files:
                if f.endswith(".go") and os.path.getmtime(os.path.join(root, f)) > bt:
                    src_newer = True
    if not os.path.exists(gosym) or src_newer:
        os.makedirs(os.path.join(VERIF, "bin"), exist_ok=True)
        r = sh(["go", "build", "-o", gosym, "./cmd/gosym"], cwd=os.path.join(VERIF, "engine"), env=GOENV)
        if r.returncode != 0:
            print("UNDECIDED reason=engine build failed")
            sys.exit(2)
    return gosym


def known_findings():
    """returns {property: [{id, what}]}, fixed list ignored (suppresses nothing)"""
    out = {}
    p = os.path.join(VERIF, "known_findings.txt")
    if not os.path.exists(p):
        return out
    for line in open(p):
        line = line.strip()
        if not line.startswith("finding:"):
            continue
        m = re.search(r"property=(\S+)\s+id=(\S+)\s+(.*)", line)
        if m:
            out.setdefault(m.group(1), []).append({"id": m.group(2), "what": m.group(3)})
    return out


def pkg_dirs_of(jobs):
    return sorted({j["pkgdir"] for j in jobs})


def build_overlay(pid, pkgdirs, gen):
    """harness files + per-package runtime + generated replay test; returns (overlay map, harness names per pkg)"""
    overlay = {}
    names = {}
    rt_src = open(os.path.join(VERIF, "harness", "rt", "zz_verif_rt.go.txt")).read()
    for pd in pkgdirs:
        hdir = os.path.join(VERIF, "harness", pd)
        pkgname = None
        funcs = []
        for f in sorted(glob.glob(os.path.join(hdir, "*.go"))):
            src = open(f).read()
            m = re.search(r"^package (\w+)", src, re.M)
            pkgname = m.group(1)
            overlay[os.path.join(REPO, pd, os.path.basename(f))] = f
            funcs += re.findall(r"^func (Verif\w+)\(\)", src, re.M)
        if pkgname is None:
            raise SystemExit("no harness files for " + pd)
        rt = os.path.join(gen, pd.replace("/", "_") + "_rt.go")
        open(rt, "w").write(rt_src.replace("package PKG", "package " + pkgname))
        overlay[os.path.join(REPO, pd, "zz_verif_rt.go")] = rt
        names[pd] = (pkgname, funcs)
    # model packages (whole directories under /verif/models/<dir>)
    for md in sorted(glob.glob(os.path.join(VERIF, "models", "*"))):
        for f in sorted(glob.glob(os.path.join(md, "*.go"))):
            overlay[os.path.join(REPO, os.path.basename(md), os.path.basename(f))] = f
    return overlay, names


REPLAY_TEST = '''package %(pkg)s

import (
	"encoding/json"
	"fmt"
	"os"
	"path/filepath"
	"sort"
	"strconv"
	"testing"
	"time"
)

var verifRegistry = map[string]func(){
%(reg)s}

func TestVerifReplay(t *testing.T) {
	dir := os.Getenv("VERIF_REPLAY_DIR")
	files, _ := filepath.Glob(filepath.Join(dir, "*.json"))
	sort.Strings(files)
	for _, f := range files {
		r := verifLoad(f)
		if r.Package != "%(path)s" {
			continue
		}
		h := verifRegistry[r.Harness]
		if h == nil {
			t.Errorf("unknown harness %%s", r.Harness)
			continue
		}
		verifCur, verifFailed, verifObserved, verifReached, verifKnownOn, verifKnownBad = r, nil, nil, nil, "", nil
		if n, _ := strconv.Atoi(os.Getenv("VERIF_STRESS")); n > 0 {
			// schedule-dependent counterexample: run the harness instance again and again and
			// let the Go scheduler find the interleaving; a panic in a goroutine or a deadlock
			// kills this process (that is the confirmation), a failed assertion is recorded
			deadline := time.Now().Add(45 * time.Second)
			k := 0
			for ; k < n && time.Now().Before(deadline) && len(verifFailed) == 0; k++ {
				h()
			}
			b, _ := json.Marshal(map[string]interface{}{"failed": verifFailed, "stress_runs": k})
			os.WriteFile(f+".stress", b, 0644)
			continue
		}
		pmsg := func() (msg string) {
			defer func() {
				if p := recover(); p != nil {
					if _, ok := p.(verifAssumeFailed); ok {
						msg = "assume-failed"
					} else {
						msg = fmt.Sprint("panic: ", p)
					}
				}
			}()
			h()
			return ""
		}()
		out := map[string]interface{}{"failed": verifFailed, "observed": verifObserved, "reached": verifReached, "panic": pmsg, "known_failed": verifKnownBad}
		b, _ := json.Marshal(out)
		os.WriteFile(f+".native", b, 0644)
	}
}
'''


def rewrite_morass(src):
    """native replay only: route the temp-file/gob call sites of morass.go through the pass-through
    wrappers of the harness, which count operations and inject the solver-chosen fault"""
    X = r"((?:\w+\.)*\w+)"
    src = re.sub(r"\bioutil\.TempDir\(", "verifTempDir(", src)
    src = re.sub(r"\bioutil\.TempFile\(", "verifTempFile(", src)
    src = re.sub(X + r"\.Encode\(", r"verifEncode(\1, ", src)
    src = re.sub(X + r"\.Decode\(", r"verifDecode(\1, ", src)
    src = re.sub(X + r"\.Sync\(\)", r"verifSync(\1)", src)
    src = re.sub(X + r"\.Seek\(", r"verifSeek(\1, ", src)
    src = re.sub(X + r"\.file\.Close\(\)", r"verifClose(\1.file)", src)
    src = re.sub(r"\bos\.RemoveAll\(", "verifRemoveAll(", src)
    src = re.sub(r"\bos\.Remove\(", "verifRemove(", src)
    # imports that became unused
    code = "\n".join(l for l in src.split("\n") if not l.strip().startswith("//"))
    if not re.search(r"\bioutil\.", code):
        src = src.replace('\t"io/ioutil"\n', '\t_ "io/ioutil"\n')
    if not re.search(r"\bos\.", code):
        src = src.replace('\t"os"\n', '\t_ "os"\n')
    return src


NATIVE_REWRITES = {"morass": rewrite_morass}


def native_replay(pid, overlay, names, replay_dir, gen, timeout_s=300):
    """runs the replay files natively; returns {file: native result or None}"""
    files = sorted(glob.glob(os.path.join(replay_dir, "*.json")))
    if not files:
        return {}
    by_pkg = {}
    for f in files:
        r = json.load(open(f))
        by_pkg.setdefault(r["package"], []).append(f)
    ov = dict(overlay)
    pkgs = []
    for pd, (pkgname, funcs) in names.items():
        path = MODULE + "/" + pd
        if path not in by_pkg:
            continue
        reg = "".join('\t"%s": %s,\n' % (fn, fn) for fn in funcs)
        tf = os.path.join(gen, pd.replace("/", "_") + "_replay_test.go")
        open(tf, "w").write(REPLAY_TEST % {"pkg": pkgname, "reg": reg, "path": path})
        ov[os.path.join(REPO, pd, "zz_verif_replay_test.go")] = tf
        pkgs.append("./" + pd)
    for rel, how in (checks.CHECKS[pid].get("native_rewrite") or {}).items():
        rw = os.path.join(gen, rel.replace("/", "_"))
        open(rw, "w").write(NATIVE_REWRITES[how](open(os.path.join(REPO, rel)).read()))
        ov[os.path.join(REPO, rel)] = rw
    ovf = os.path.join(gen, "overlay.json")
    json.dump({"Replace": ov}, open(ovf, "w"))
    env = dict(GOENV, VERIF_REPLAY_DIR=replay_dir)
    cmd = ["timeout", str(timeout_s), "go", "test", "-vet=off", "-count=1", "-run", "^TestVerifReplay$",
           "-timeout", "%ds" % (timeout_s - 10), "-overlay", ovf] + pkgs
    r = sh(cmd, cwd=REPO, env=env, stdout=subprocess.PIPE, stderr=subprocess.STDOUT, text=True)
    res = {}
    for f in files:
        nf = f + ".native"
        res[f] = json.load(open(nf)) if os.path.exists(nf) else None
    res["_log"] = r.stdout[-4000:]
    res["_rc"] = r.returncode
    # data races reported by the engine's happens-before detector: ask the Go race detector
    # (go test -race) about the same harness instance; it needs both accesses to occur in one
    # native run, so a few repetitions are tried and the outcome is recorded, not required
    racy = [f for f in files if json.load(open(f)).get("fails", "").startswith("data-race")][:3]
    for f in racy:
        one = os.path.join(gen, "race-one")
        shutil.rmtree(one, ignore_errors=True)
        os.makedirs(one)
        shutil.copy(f, one)
        verdict = "not reproduced by go test -race in 5 runs"
        for attempt in range(5):
            rr = sh(["timeout", "240", "go", "test", "-race", "-vet=off", "-count=1", "-run", "^TestVerifReplay$", "-overlay", ovf] + pkgs,
                    cwd=REPO, env=dict(GOENV, VERIF_REPLAY_DIR=one), stdout=subprocess.PIPE, stderr=subprocess.STDOUT, text=True)
            if "WARNING: DATA RACE" in rr.stdout:
                m = re.search(r"WARNING: DATA RACE\n(.*?)\n\n", rr.stdout, re.S)
                verdict = "confirmed by go test -race (run %d)" % (attempt + 1)
                res.setdefault("_race", {})[f] = {"verdict": verdict, "report": (m.group(1) if m else "")[:1500]}
                break
        else:
            res.setdefault("_race", {})[f] = {"verdict": verdict, "report": ""}
    # other schedule-dependent counterexamples (deadlock, crash, wrong result under one interleaving):
    # stress the same harness instance natively and record whether the Go scheduler reproduces it
    sched_dep = [f for f in files if f not in racy and json.load(open(f)).get("schedule_dependent")][:2]
    for f in sched_dep:
        one = os.path.join(gen, "stress-one")
        shutil.rmtree(one, ignore_errors=True)
        os.makedirs(one)
        shutil.copy(f, one)
        rr = sh(["timeout", "120", "go", "test", "-vet=off", "-count=1", "-run", "^TestVerifReplay$", "-timeout", "60s", "-overlay", ovf] + pkgs,
                cwd=REPO, env=dict(GOENV, VERIF_REPLAY_DIR=one, VERIF_STRESS="200000"), stdout=subprocess.PIPE, stderr=subprocess.STDOUT, text=True)
        sf = os.path.join(one, os.path.basename(f) + ".stress")
        out = rr.stdout
        if "all goroutines are asleep" in out or "test timed out" in out:
            verdict = "reproduced natively by stress: the process deadlocked / hung"
        elif re.search(r"^panic: |^fatal error: ", out, re.M):
            m = re.search(r"^(panic: .*|fatal error: .*)$", out, re.M)
            verdict = "reproduced natively by stress: " + m.group(1)[:160]
        elif os.path.exists(sf):
            st = json.load(open(sf))
            if st.get("failed"):
                verdict = "reproduced natively by stress after %d runs: %s" % (st["stress_runs"], ", ".join(st["failed"][:2]))
            else:
                verdict = "not reproduced natively in %d stress runs" % st["stress_runs"]
        else:
            verdict = "native stress run inconclusive (rc=%d)" % rr.returncode
        res.setdefault("_stress", {})[f] = {"verdict": verdict}
    return res


def run_check(pid, tier):
    t0 = time.time()
    seed = int(os.environ.get("VERIF_SEED", "0") or 0)
    spec = checks.CHECKS[pid]
    jobs = spec["jobs"](tier)
    gosym = ensure_built()
    gen = os.path.join(VERIF, "out", "gen", pid)
    replay_dir = os.path.join(VERIF, "out", "replay", pid)
    for d in (gen, replay_dir):
        shutil.rmtree(d, ignore_errors=True)
        os.makedirs(d)
    pkgdirs = pkg_dirs_of(jobs)
    overlay, names = build_overlay(pid, pkgdirs, gen)
    kf = known_findings().get(pid, [])
    known_ids = [k["id"] for k in kf]
    gjobs = []
    for n, j in enumerate(jobs):
        gj = {"id": "%s-%d" % (pid, n), "package": MODULE + "/" + j["pkgdir"], "func": j["func"],
              "params": j.get("params", {}), "math": j.get("math", False), "witnesses": j.get("witnesses", 2),
              "known_ids": known_ids, "timeout_s": max(j.get("timeout_s", 600 if tier == "quick" else 3000), 1500)}  # at least 1500 s per instance: the slowest quick instance takes ~380 s on a loaded machine
        # the Go fmt model is always available: a change to the code under test may start using fmt
        gj["models"] = dict(DEFAULT_MODELS)
        for k in ("sched", "preempt", "max_paths", "max_instrs", "unwind", "split_cap", "max_violations", "models",
                  "init_allow", "noifconv", "floatsplit", "solver", "oneshot_min", "fsmodel", "max_faults"):
            if k in j:
                if k == "models":
                    gj["models"].update(j[k])
                else:
                    gj[k] = j[k]
        gjobs.append(gj)
    patterns = sorted({"./" + pd for pd in pkgdirs} | set(spec.get("extra_patterns", [])) | {"./zz_verifmodel"})
    sp = {"repo": REPO, "overlay": overlay, "patterns": patterns, "jobs": gjobs,
          "workers": int(os.environ.get("VERIF_WORKERS", "14"))}
    spf = os.path.join(gen, "spec.json")
    json.dump(sp, open(spf, "w"), indent=1)
    # cross-solver validation: every N-th decided query is re-decided by z3 5.1 (z3-new) and cvc5
    xdir = os.path.join(VERIF, "out", "xsolver", pid)
    shutil.rmtree(xdir, ignore_errors=True)
    os.makedirs(xdir)
    env = dict(GOENV)
    env.setdefault("GOSYM_XCHECK", "400" if tier == "quick" else "150")
    env.setdefault("GOSYM_TMP", xdir)
    r = sh([gosym, spf], stdout=subprocess.PIPE, stderr=subprocess.PIPE, text=True, env=env)
    if r.returncode != 0:
        print(r.stderr[-3000:])
        print("UNDECIDED property=%s reason=engine failed to load or run (rc=%d)" % (pid, r.returncode))
        write_evidence(pid, tier, seed, t0, jobs, None, [], [], ["engine rc=%d: %s" % (r.returncode, r.stderr[-500:])], 0, kf)
        return 2
    out = json.loads(r.stdout)
    json.dump(out, open(os.path.join(gen, "result.json"), "w"), indent=1)

    # replay files: witnesses and violations
    undecided = []
    nrep = 0
    viol_files = []
    wit_files = []
    for jo, j in zip(out["jobs"], jobs):
        for u in jo.get("undecided") or []:
            undecided.append("%s %s: %s" % (jo["func"], json.dumps(jo["params"], sort_keys=True), u.split("\n")[0][:400]))
        for k, w in enumerate(jo.get("witnesses") or []):
            f = os.path.join(replay_dir, "%s-w%d.json" % (jo["id"], k))
            json.dump({"property": pid, "harness": jo["func"], "package": jo["package"], "params": jo["params"],
                       "values": w["Model"], "fails": "", "known_ids": known_ids, "engine_observations": w["Observe"] or [],
                       "reached": w.get("Reached") or []}, open(f, "w"), indent=1)
            wit_files.append(f)
        for k, v in enumerate(jo.get("violations") or []):
            f = os.path.join(replay_dir, "%s-v%d.json" % (jo["id"], k))
            json.dump({"property": pid, "harness": jo["func"], "package": jo["package"], "params": jo["params"],
                       "values": v["Model"] or {}, "fails": v["Label"], "known": v.get("Known", ""), "known_ids": known_ids,
                       "engine_observations": v["Observe"] or [], "decisions": v.get("Trace"),
                       "schedule_dependent": j.get("sched") == "sym"}, open(f, "w"), indent=1)
            viol_files.append(f)
    native = native_replay(pid, overlay, names, replay_dir, gen)
    validated = 0
    for f in wit_files:
        n = native.get(f)
        r_ = json.load(open(f))
        if n is None:
            undecided.append("native replay of witness %s did not run: %s" % (os.path.basename(f), native.get("_log", "")[-600:]))
            continue
        if n["panic"] or n["failed"]:
            undecided.append("engine/native mismatch on witness %s: native panic=%r failed=%r" % (os.path.basename(f), n["panic"], n["failed"]))
            continue
        if (n["observed"] or []) != (r_["engine_observations"] or []):
            undecided.append("engine/native observation mismatch on %s: engine=%r native=%r" % (os.path.basename(f), r_["engine_observations"], n["observed"]))
            continue
        validated += 1
    confirmed, known_hits = [], {}
    sym_sched = {gj["id"] for gj, j in zip(gjobs, jobs) if j.get("sched") == "sym"}
    for f in viol_files:
        n = native.get(f)
        r_ = json.load(open(f))
        label = r_["fails"]
        ok = False
        if os.path.basename(f).rsplit("-v", 1)[0] in sym_sched:
            # found under the symbolic scheduler: depends on the interleaving, which the native Go
            # scheduler will not reproduce on demand; reported with the schedule the engine found
            ok = True
            rv = (native.get("_race") or {}).get(f) or (native.get("_stress") or {}).get(f)
            if rv:
                r_["native_confirmation"] = rv
                json.dump(r_, open(f, "w"), indent=1)
                label = r_["fails"] + " [" + rv["verdict"] + "]"
        if n is not None and not ok:
            if label.startswith("panic-escaped"):
                ok = n["panic"].startswith("panic:")
            elif label.startswith("deadlock") or label.startswith("crash"):
                ok = True  # schedule-dependent: replayed by the gate harness where available
            else:
                ok = label in (n["failed"] or []) or label in (n.get("known_failed") or []) or n["panic"].startswith("panic:")
        if not ok:
            undecided.append("counterexample %s (label %s) did not reproduce natively: %r" % (os.path.basename(f), label, n))
            continue
        if r_.get("known"):
            known_hits.setdefault(r_["known"], f)
        else:
            confirmed.append((f, label))
    rc = 0
    post = None
    if spec.get("post") == "c18_tables":
        import post_c18
        obs = []
        for jo in out["jobs"]:
            if jo["func"] == "VerifC18_Tables":
                for w in jo.get("witnesses") or []:
                    obs = w["Observe"] or []
        post = post_c18.run(obs)
        if not obs or post["queries"] < 800:
            undecided.append("C18 table stage: observation log missing or too short (%d queries)" % post["queries"])
        for v in post["violations"]:
            if v["answer"] != "sat":
                undecided.append("C18 table stage: solver answered %s for %s[%s]" % (v["answer"], v["table"], v["index"]))
                continue
            f = os.path.join(replay_dir, "table-%s-%s.json" % (v["table"], v["index"]))
            json.dump({"property": pid, "table": v["table"], "index": v["index"], "what": v["what"],
                       "note": "table entry produced by the real init code contradicts its analytic definition (QF_NRA, sat)"}, open(f, "w"), indent=1)
            confirmed.append((f, "%s[%s]: %s" % (v["table"], v["index"], v["what"])))
    for k in kf:
        if k["id"] in known_hits:
            print("KNOWN-FINDING: property=%s %s (%s) replay=%s" % (pid, k["id"], k["what"], known_hits[k["id"]]))
        else:
            print("note: known finding %s was not reproduced at this bound" % k["id"])
    for f, label in confirmed[:12]:
        print("VIOLATION property=%s replay=%s label=%s" % (pid, f, label))
    if len(confirmed) > 12:
        print("... and %d more violations (see %s)" % (len(confirmed) - 12, replay_dir))
    if confirmed:
        rc = 1
    if rc == 0 and undecided:
        for u in undecided[:10]:
            print("UNDECIDED property=%s reason=%s" % (pid, u))
        rc = 2
    # vacuity: every job must have reached its end on at least one path
    for jo in out["jobs"]:
        if not (jo.get("reached") or {}).get("end") and not jo.get("violations") and not jo.get("undecided"):
            print("UNDECIDED property=%s reason=vacuous harness %s %s (no path reached the end)" % (pid, jo["func"], jo["params"]))
            rc = max(rc, 2)
    write_evidence(pid, tier, seed, t0, jobs, out, confirmed, list(known_hits), undecided, validated, kf, post)
    s = summarize(out)
    print("%s %s: %d harness instances, %d paths, %d solver queries (%.1fs solver), %d witnesses validated natively, wall %.1fs -> %s" % (
        pid, tier, len(jobs), s["paths"], s["queries"], s["solver_s"], validated, time.time() - t0,
        {0: "HELD", 1: "VIOLATION", 2: "UNDECIDED"}[rc]))
    return rc


def summarize(out):
    s = {"paths": 0, "queries": 0, "solver_s": 0.0, "asserts": {}, "instrs": 0, "obligations": 0, "xchecked": 0, "xagree": 0, "xunknown": 0, "retries": 0, "retries_decided": 0}
    for jo in out["jobs"]:
        for k in ("xchecked", "xagree", "xunknown", "retries", "retries_decided"):
            s[k] += jo.get(k, 0)
        s["paths"] += jo["paths"]
        s["queries"] += jo["queries"]
        s["solver_s"] += jo["solver_s"]
        s["instrs"] += jo["instrs"]
        s["obligations"] += jo["obligations"]
        for k, v in (jo.get("assert_checks") or {}).items():
            s["asserts"][k] = s["asserts"].get(k, 0) + v
        for k, v in (jo.get("assert_const") or {}).items():
            s["asserts"][k] = s["asserts"].get(k, 0) + v
    return s


def write_evidence(pid, tier, seed, t0, jobs, out, confirmed, known_hits, undecided, validated, kf, post=None):
    spec = checks.CHECKS[pid]
    ev = {"property_id": pid, "tier": tier, "seed": seed, "level": "model_checking",
          "wall_s": round(time.time() - t0, 2), "violations": len(confirmed),
          "assumptions": spec.get("assumptions", []) + [
              "gosym (own Go-SSA symbolic interpreter) implements Go semantics faithfully for the executed instructions; checked per run by native replay of solver-produced witnesses",
              "z3 4.8.12 answers are correct; any (error line, unknown or timeout makes the run UNDECIDED, never HELD"]}
    cov = {"explanation": spec.get("explanation", "")}
    if out is not None:
        s = summarize(out)
        samples = []
        for jo in out["jobs"]:
            for w in (jo.get("witnesses") or [])[:1]:
                samples.append({"harness": jo["func"], "params": jo["params"], "assignment": w["Model"], "observed": w["Observe"]})
        cov.update({
            "states": max(1, s["paths"]), "transitions": max(1, s["queries"]),
            "traces_validated_against_impl": validated,
            "samples": samples[:12] or [{"note": "no witness produced"}],
            "evaluations": max(1, s["paths"]),
            "distinct_nontrivial": max(2, sum(1 for jo in out["jobs"] if jo["paths_done"] > 0) + sum(jo["paths_done"] for jo in out["jobs"]) - 1),
            "rule": "one evaluation = one explored path (distinct by its decision sequence, feasibility solver-checked) of one harness instantiation; every assertion on it is decided by an SMT query over all values of the symbolic inputs on that path; non-trivial = reached the end of the harness",
            "functions_encoded": spec.get("functions", []),
            "bounds": [{"harness": j["func"], "params": j.get("params", {}), "int_mode": "math" if j.get("math") else "bv"} for j in jobs][:80],
            "harness_instances": len(jobs),
            "paths": s["paths"], "solver_queries": s["queries"], "solver_time_s": round(s["solver_s"], 2),
            "ssa_instructions_executed": s["instrs"], "overflow_obligations_discharged": s["obligations"],
            "assertion_evaluations": s["asserts"],
            "solver": "z3 4.8.12 (z3 -in -t:20000, incremental push/pop; fresh process for contexts >= 600 lines); a query answered unknown is re-decided by a fresh z3 4.8.12 and then z3 5.1.0 with a 120 s limit",
            "timeouts_retried": {"retried": s["retries"], "decided_on_retry": s["retries_decided"]},
            "cross_solver_validation": {"rule": "the 5th, the 50th and every N-th decided query (N = GOSYM_XCHECK, default 400 quick / 150 thorough, counted per harness instance) is written out as a stand-alone SMT-LIB2 script and re-decided by z3 5.1.0 (z3-new) and cvc5 1.0; sat-vs-unsat disagreement makes the run UNDECIDED and keeps the script under out/xsolver/",
                                        "solver_runs": s["xchecked"], "agree": s["xagree"], "other_solver_unknown_or_timeout": s["xunknown"], "disagree": s["xchecked"] - s["xagree"] - s["xunknown"]},
            "exhaustive": all(jo["exhausted"] for jo in out["jobs"]),
            "outside_the_bound": spec.get("outside", ""),
            "undecided": undecided[:20],
            "known_findings_reproduced": known_hits,
            "known_findings_listed": [k["id"] for k in kf],
        })
        if post is not None:
            cov["real_arithmetic_stage"] = {"logic": "QF_NRA, for all r in a rational enclosure of 10^(1/20) of width 2^-90 (lo^20<=10<=hi^20 discharged as obligation 0)", "queries": post["queries"], "solver_s": post["solver_s"],
                                            "table_entries": post["entries"], "refuted": len(post["violations"]), "samples": post["samples"]}
            cov["transitions"] += post["queries"]
    else:
        cov.update({"states": 1, "transitions": 1, "traces_validated_against_impl": 0, "samples": [{"note": "engine failure"}],
                    "evaluations": 1, "distinct_nontrivial": 2, "undecided": undecided})
    ev["coverage"] = cov
    # runs against a scratch copy of the repository (seeded changes, experiments) must not
    # replace the evidence of the registered command, which describes /repo itself
    evdir = os.path.join(VERIF, "evidence") if REPO == "/repo" or os.environ.get("VP_RUN_REPO") else os.path.join(VERIF, "out", "evidence-scratch")
    os.makedirs(evdir, exist_ok=True)
    json.dump(ev, open(os.path.join(evdir, pid + ".json"), "w"), indent=1)


def main():
    if len(sys.argv) >= 3 and sys.argv[1] == "replay":
        r = json.load(open(sys.argv[2]))
        pid = r["property"]
        spec = checks.CHECKS[pid]
        pd = r["package"][len(MODULE) + 1:]
        gen = os.path.join(VERIF, "out", "gen", pid + "-replay")
        rd = os.path.join(VERIF, "out", "replay", pid + "-single")
        for d in (gen, rd):
            shutil.rmtree(d, ignore_errors=True)
            os.makedirs(d)
        shutil.copy(sys.argv[2], os.path.join(rd, "r.json"))
        overlay, names = build_overlay(pid, [pd], gen)
        res = native_replay(pid, overlay, names, rd, gen)
        print(json.dumps(res.get(os.path.join(rd, "r.json")), indent=1))
        n = res.get(os.path.join(rd, "r.json"))
        sys.exit(1 if n and (n["failed"] or n["panic"].startswith("panic:")) else 0)
    if len(sys.argv) != 3 or sys.argv[2] not in ("quick", "thorough"):
        print(__doc__)
        sys.exit(2)
    sys.exit(run_check(sys.argv[1], sys.argv[2]))


if __name__ == "__main__":
    main()
