// Package zz_verifmodel holds the environment models that gosym substitutes for library
// functions whose real bodies are out of reach (fmt's reflection-driven printer). They are
// ordinary Go, interpreted symbolically like the code under test; natively the real functions run.
//
// The printer covers: verbs v s d c q x X t b o f F e E g G T and %%, flags + - # 0 and space,
// decimal or '*' width and precision, Formatter / error / Stringer operands, and operands of
// kind bool, integer, float, string, []byte, slice, array, struct, pointer-to-aggregate and
// interface. Anything else (maps, %#v, %U, %p, addresses, indexed operands) is declined with a
// panic whose text starts "zz_verifmodel: ", which the engine reports as unsupported
// (UNDECIDED), never as a behaviour of the code under test.
package zz_verifmodel

import (
	"fmt"
	"io"
	"reflect"
	"strconv"
	"strings"
	"unicode/utf8"
)

// state implements fmt.State for Formatter operands.
type state struct {
	w             io.Writer
	n             int
	err           error
	wid, prec     int
	widOK, precOK bool
	sharp, plus   bool
	minus, space  bool
	zero          bool
	plusV         bool // %+v: field names, and no '+' on numbers
}

func (s *state) Write(b []byte) (int, error) {
	n, err := s.w.Write(b)
	s.n += n
	if err != nil && s.err == nil {
		s.err = err
	}
	return n, err
}
func (s *state) Width() (int, bool)     { return s.wid, s.widOK }
func (s *state) Precision() (int, bool) { return s.prec, s.precOK }
func (s *state) Flag(c int) bool {
	switch c {
	case '#':
		return s.sharp
	case '+':
		return s.plus
	case '-':
		return s.minus
	case ' ':
		return s.space
	case '0':
		return s.zero
	}
	return false
}

func decline(what string) { panic("zz_verifmodel: " + what) }

func appendUint(b []byte, u uint64, base uint64, upper bool) []byte {
	digits := "0123456789abcdef"
	if upper {
		digits = "0123456789ABCDEF"
	}
	var tmp [64]byte
	i := len(tmp)
	for u >= base {
		i--
		tmp[i] = digits[u%base]
		u /= base
	}
	i--
	tmp[i] = digits[u]
	return append(b, tmp[i:]...)
}

func isExported(name string) bool { return name != "" && name[0] >= 'A' && name[0] <= 'Z' }

// fmtInteger renders a signed or unsigned integer under verb. neg reports a negative value whose
// magnitude is u.
func (s *state) fmtInteger(b []byte, verb rune, u uint64, neg bool, typ string) []byte {
	switch verb {
	case 'v', 'd':
		return s.fmtBase(b, u, neg, 10, false, "")
	case 'b':
		return s.fmtBase(b, u, neg, 2, false, "0b")
	case 'o':
		return s.fmtBase(b, u, neg, 8, false, "0")
	case 'x':
		return s.fmtBase(b, u, neg, 16, false, "0x")
	case 'X':
		return s.fmtBase(b, u, neg, 16, true, "0X")
	case 'c':
		r := rune(u)
		if neg || u > utf8.MaxRune {
			r = utf8.RuneError
		}
		return utf8.AppendRune(b, r)
	case 'q':
		r := rune(u)
		if neg || u > utf8.MaxRune {
			r = utf8.RuneError
		}
		return strconv.AppendQuoteRune(b, r)
	}
	return s.badVerb(b, verb, typ, func(b []byte) []byte { return s.fmtBase(b, u, neg, 10, false, "") })
}

func (s *state) fmtBase(b []byte, u uint64, neg bool, base uint64, upper bool, prefix string) []byte {
	switch {
	case neg:
		b = append(b, '-')
	case s.plus:
		b = append(b, '+')
	case s.space:
		b = append(b, ' ')
	}
	if s.sharp {
		b = append(b, prefix...)
	}
	d := appendUint(nil, u, base, upper)
	if s.precOK {
		if s.prec == 0 && u == 0 {
			return b
		}
		for k := len(d); k < s.prec; k++ {
			b = append(b, '0')
		}
	}
	return append(b, d...)
}

func (s *state) fmtFloat(b []byte, verb rune, v float64, bits int, typ string) []byte {
	f, p := byte(0), -1
	switch verb {
	case 'v':
		f = 'g'
	case 'e', 'E', 'f', 'g', 'G':
		f = byte(verb)
		if verb != 'g' && verb != 'G' {
			p = 6
		}
	case 'F':
		f, p = 'f', 6
	default:
		return s.badVerb(b, verb, typ, func(b []byte) []byte { return strconv.AppendFloat(b, v, 'g', -1, bits) })
	}
	if s.precOK {
		p = s.prec
	}
	if s.sharp {
		decline("'#' flag on a float")
	}
	d := strconv.AppendFloat(nil, v, f, p, bits)
	if len(d) > 0 && d[0] != '-' && d[0] != '+' {
		if s.plus {
			b = append(b, '+')
		} else if s.space {
			b = append(b, ' ')
		}
	}
	return append(b, d...)
}

func (s *state) fmtString(b []byte, verb rune, v string, typ string) []byte {
	if s.precOK && (verb == 'v' || verb == 's' || verb == 'q') {
		n := 0
		for i := range v {
			if n == s.prec {
				v = v[:i]
				break
			}
			n++
		}
	}
	switch verb {
	case 'v', 's':
		return append(b, v...)
	case 'q':
		if s.sharp {
			decline("%#q")
		}
		if s.plus {
			return strconv.AppendQuoteToASCII(b, v)
		}
		return strconv.AppendQuote(b, v)
	case 'x', 'X':
		if s.sharp || s.space {
			decline("'#' or ' ' flag on %x of a string")
		}
		for i := 0; i < len(v); i++ {
			if v[i] < 16 {
				b = append(b, '0')
			}
			b = appendUint(b, uint64(v[i]), 16, verb == 'X')
		}
		return b
	}
	return s.badVerb(b, verb, typ, func(b []byte) []byte { return append(b, v...) })
}

func (s *state) badVerb(b []byte, verb rune, typ string, val func([]byte) []byte) []byte {
	b = append(b, "%!"...)
	b = utf8.AppendRune(b, verb)
	b = append(b, '(')
	b = append(b, typ...)
	b = append(b, '=')
	b = val(b)
	return append(b, ')')
}

// methods renders an operand through its error / Stringer method where fmt would.
func (s *state) methods(b []byte, verb rune, a interface{}) ([]byte, bool) {
	if s.sharp && verb == 'v' {
		decline("%#v")
	}
	switch verb {
	case 'v', 's', 'x', 'X', 'q':
		switch v := a.(type) {
		case error:
			return s.fmtString(b, verb, v.Error(), "string"), true
		case fmt.Stringer:
			return s.fmtString(b, verb, v.String(), "string"), true
		}
	}
	return b, false
}

// operand renders a top-level operand (or an element reachable through exported names).
func (s *state) operand(b []byte, verb rune, a interface{}, depth int) []byte {
	if a == nil {
		if verb == 'v' {
			return append(b, "<nil>"...)
		}
		b = append(b, "%!"...)
		b = utf8.AppendRune(b, verb)
		return append(b, "(<nil>)"...)
	}
	if verb == 'T' {
		return append(b, reflect.TypeOf(a).String()...)
	}
	if r, ok := s.methods(b, verb, a); ok {
		return r
	}
	switch v := a.(type) {
	case string:
		return s.fmtString(b, verb, v, "string")
	case int:
		if v < 0 {
			return s.fmtInteger(b, verb, uint64(-v), true, "int")
		}
		return s.fmtInteger(b, verb, uint64(v), false, "int")
	case bool:
		return s.fmtBool(b, verb, v)
	}
	return s.value(b, verb, reflect.ValueOf(a), depth, true)
}

func (s *state) fmtBool(b []byte, verb rune, v bool) []byte {
	val := func(b []byte) []byte {
		if v {
			return append(b, "true"...)
		}
		return append(b, "false"...)
	}
	if verb == 'v' || verb == 't' {
		return val(b)
	}
	return s.badVerb(b, verb, "bool", val)
}

// value renders by kind. exported is false below an unexported struct field, where fmt does
// not call methods.
func (s *state) value(b []byte, verb rune, rv reflect.Value, depth int, exported bool) []byte {
	if depth > 0 && exported && rv.IsValid() {
		switch rv.Kind() {
		case reflect.Interface, reflect.Ptr, reflect.Slice, reflect.Map:
			if rv.IsNil() {
				exported = false // nothing to call a method on
			}
		}
		if exported {
			a := rv.Interface()
			if f, ok := a.(fmt.Formatter); ok {
				_ = f
				decline("Formatter operand nested in an aggregate")
			}
			if r, ok := s.methods(b, verb, a); ok {
				return r
			}
		}
	}
	typ := func() string { return rv.Type().String() }
	switch rv.Kind() {
	case reflect.Bool:
		return s.fmtBool(b, verb, rv.Bool())
	case reflect.Int, reflect.Int8, reflect.Int16, reflect.Int32, reflect.Int64:
		v := rv.Int()
		if v < 0 {
			return s.fmtInteger(b, verb, uint64(-v), true, typ())
		}
		return s.fmtInteger(b, verb, uint64(v), false, typ())
	case reflect.Uint, reflect.Uint8, reflect.Uint16, reflect.Uint32, reflect.Uint64, reflect.Uintptr:
		return s.fmtInteger(b, verb, rv.Uint(), false, typ())
	case reflect.Float32:
		return s.fmtFloat(b, verb, rv.Float(), 32, typ())
	case reflect.Float64:
		return s.fmtFloat(b, verb, rv.Float(), 64, typ())
	case reflect.String:
		return s.fmtString(b, verb, rv.String(), typ())
	case reflect.Slice, reflect.Array:
		if rv.Type().Elem().Kind() == reflect.Uint8 {
			switch verb {
			case 's', 'q', 'x', 'X':
				p := make([]byte, rv.Len())
				for i := range p {
					p[i] = byte(rv.Index(i).Uint())
				}
				return s.fmtString(b, verb, string(p), typ())
			}
		}
		b = append(b, '[')
		for i := 0; i < rv.Len(); i++ {
			if i > 0 {
				b = append(b, ' ')
			}
			b = s.value(b, verb, rv.Index(i), depth+1, exported)
		}
		return append(b, ']')
	case reflect.Struct:
		b = append(b, '{')
		t := rv.Type()
		for i := 0; i < rv.NumField(); i++ {
			if i > 0 {
				b = append(b, ' ')
			}
			name := t.Field(i).Name
			if s.plusV {
				b = append(b, name...)
				b = append(b, ':')
			}
			b = s.value(b, verb, rv.Field(i), depth+1, exported && isExported(name))
		}
		return append(b, '}')
	case reflect.Interface:
		if rv.IsNil() {
			return append(b, "<nil>"...)
		}
		return s.value(b, verb, rv.Elem(), depth+1, exported)
	case reflect.Ptr:
		if rv.IsNil() {
			if verb == 'v' {
				return append(b, "<nil>"...)
			}
			decline("nil pointer under a verb other than %v")
		}
		if depth == 0 {
			switch rv.Elem().Kind() {
			case reflect.Struct, reflect.Slice, reflect.Array:
				b = append(b, '&')
				return s.value(b, verb, rv.Elem(), depth+1, exported)
			}
		}
		decline("printing an address")
	}
	decline("operand kind not covered (map, chan, func, complex, unsafe pointer)")
	return b
}

// pad writes b padded to the width.
func (s *state) pad(b []byte, numeric bool) {
	if !s.widOK {
		s.Write(b)
		return
	}
	n := s.wid - utf8.RuneCount(b)
	if n <= 0 {
		s.Write(b)
		return
	}
	if s.minus {
		s.Write(b)
		s.Write([]byte(strings.Repeat(" ", n)))
		return
	}
	if s.zero {
		k := 0
		if numeric && len(b) > 0 && (b[0] == '-' || b[0] == '+' || b[0] == ' ') {
			k = 1
		}
		s.Write(b[:k])
		s.Write([]byte(strings.Repeat("0", n)))
		s.Write(b[k:])
		return
	}
	s.Write([]byte(strings.Repeat(" ", n)))
	s.Write(b)
}

func isNumericOperand(a interface{}) bool {
	if a == nil {
		return false
	}
	switch reflect.ValueOf(a).Kind() {
	case reflect.Int, reflect.Int8, reflect.Int16, reflect.Int32, reflect.Int64,
		reflect.Uint, reflect.Uint8, reflect.Uint16, reflect.Uint32, reflect.Uint64, reflect.Uintptr,
		reflect.Float32, reflect.Float64:
		return true
	}
	return false
}

// printValue renders one operand for verb with the flags currently in s.
func printValue(s *state, verb rune, a interface{}) {
	if verb == 'v' && s.plus {
		s.plus, s.plusV = false, true
		defer func() { s.plus, s.plusV = true, false }()
	}
	if f, ok := a.(fmt.Formatter); ok && verb != 'T' {
		f.Format(s, verb)
		return
	}
	if !s.widOK {
		// common case: no buffering needed beyond the operand itself
		s.Write(s.operand(nil, verb, a, 0))
		return
	}
	if s.zero && s.precOK && isNumericOperand(a) {
		switch verb {
		case 'd', 'v', 'x', 'X', 'o', 'b':
			decline("'0' flag together with a precision on an integer")
		}
	}
	s.pad(s.operand(nil, verb, a, 0), isNumericOperand(a))
}

func (s *state) reset() {
	s.widOK, s.precOK, s.sharp, s.plus, s.minus, s.space, s.zero, s.plusV = false, false, false, false, false, false, false, false
	s.wid, s.prec = 0, 0
}

// Fprintf interprets format as fmt does for the supported subset.
func Fprintf(w io.Writer, format string, a ...interface{}) (int, error) {
	s := &state{w: w}
	arg := 0
	next := func() (interface{}, bool) {
		if arg >= len(a) {
			return nil, false
		}
		x := a[arg]
		arg++
		return x, true
	}
	lit := 0
	for i := 0; i < len(format); i++ {
		if format[i] != '%' {
			continue
		}
		if i > lit {
			s.Write([]byte(format[lit:i]))
		}
		i++
		s.reset()
	flags:
		for ; i < len(format); i++ {
			switch format[i] {
			case '#':
				s.sharp = true
			case '+':
				s.plus = true
			case '-':
				s.minus = true
				s.zero = false
			case ' ':
				s.space = true
			case '0':
				s.zero = !s.minus
			default:
				break flags
			}
		}
		if i < len(format) && format[i] == '*' {
			x, ok := next()
			n, isInt := x.(int)
			if !ok || !isInt {
				decline("bad '*' width operand")
			}
			if n < 0 {
				n = -n
				s.minus = true
				s.zero = false
			}
			s.wid, s.widOK = n, true
			i++
		} else {
			for i < len(format) && format[i] >= '0' && format[i] <= '9' {
				s.wid = s.wid*10 + int(format[i]-'0')
				s.widOK = true
				i++
			}
		}
		if i < len(format) && format[i] == '.' {
			i++
			s.precOK = true
			if i < len(format) && format[i] == '*' {
				x, ok := next()
				n, isInt := x.(int)
				if !ok || !isInt {
					decline("bad '*' precision operand")
				}
				s.prec = n
				if n < 0 {
					s.prec, s.precOK = 0, false
				}
				i++
			} else {
				for i < len(format) && format[i] >= '0' && format[i] <= '9' {
					s.prec = s.prec*10 + int(format[i]-'0')
					i++
				}
			}
		}
		if i >= len(format) {
			s.Write([]byte("%!(NOVERB)"))
			lit = i
			break
		}
		verb, size := utf8.DecodeRuneInString(format[i:])
		i += size - 1
		switch verb {
		case '%':
			s.Write([]byte{'%'})
		case 's', 'd', 'v', 'c', 'q', 'x', 'X', 't', 'b', 'o', 'f', 'F', 'e', 'E', 'g', 'G', 'T', 'w':
			x, ok := next()
			if !ok {
				s.Write([]byte("%!"))
				s.Write([]byte(string(verb)))
				s.Write([]byte("(MISSING)"))
				break
			}
			if verb == 'w' {
				verb = 'v' // Errorf handles the wrapping
			}
			printValue(s, verb, x)
		case 'U', 'p', 'O':
			decline("verb %" + string(verb))
		default:
			x, ok := next()
			s.Write([]byte("%!"))
			s.Write([]byte(string(verb)))
			if !ok {
				s.Write([]byte("(MISSING)"))
				break
			}
			s.reset()
			if x == nil {
				s.Write([]byte("(<nil>)"))
				break
			}
			s.Write([]byte{'('})
			s.Write([]byte(reflect.TypeOf(x).String()))
			s.Write([]byte{'='})
			printValue(s, 'v', x)
			s.Write([]byte{')'})
		}
		lit = i + 1
	}
	if lit < len(format) {
		s.Write([]byte(format[lit:]))
	}
	if arg < len(a) {
		s.Write([]byte("%!(EXTRA "))
		for k := arg; k < len(a); k++ {
			if k > arg {
				s.Write([]byte(", "))
			}
			s.reset()
			if a[k] == nil {
				s.Write([]byte("<nil>"))
				continue
			}
			s.Write([]byte(reflect.TypeOf(a[k]).String()))
			s.Write([]byte{'='})
			printValue(s, 'v', a[k])
		}
		s.Write([]byte{')'})
	}
	return s.n, s.err
}

func isString(x interface{}) bool {
	return x != nil && reflect.TypeOf(x).Kind() == reflect.String
}

func Fprint(w io.Writer, a ...interface{}) (int, error) {
	s := &state{w: w}
	for i, x := range a {
		if i > 0 && !isString(a[i-1]) && !isString(x) {
			s.Write([]byte{' '})
		}
		printValue(s, 'v', x)
	}
	return s.n, s.err
}

func Fprintln(w io.Writer, a ...interface{}) (int, error) {
	s := &state{w: w}
	for i, x := range a {
		if i > 0 {
			s.Write([]byte{' '})
		}
		printValue(s, 'v', x)
	}
	s.Write([]byte{'\n'})
	return s.n, s.err
}

type sink struct{ b []byte }

func (k *sink) Write(p []byte) (int, error) { k.b = append(k.b, p...); return len(p), nil }

func Sprintf(format string, a ...interface{}) string {
	k := &sink{}
	Fprintf(k, format, a...)
	return string(k.b)
}

func Sprint(a ...interface{}) string {
	k := &sink{}
	Fprint(k, a...)
	return string(k.b)
}

func Sprintln(a ...interface{}) string {
	k := &sink{}
	Fprintln(k, a...)
	return string(k.b)
}

type wrapError struct {
	msg string
	err error
}

func (e *wrapError) Error() string { return e.msg }
func (e *wrapError) Unwrap() error { return e.err }

type plainError struct{ msg string }

func (e *plainError) Error() string { return e.msg }

// Errorf supports at most one %w operand.
func Errorf(format string, a ...interface{}) error {
	msg := Sprintf(format, a...)
	if strings.Count(format, "%w") > 1 {
		decline("Errorf with more than one %w")
	}
	arg := 0
	for i := 0; i < len(format); i++ {
		if format[i] != '%' {
			continue
		}
		i++
		for i < len(format) && strings.IndexByte("+-# 0123456789.", format[i]) >= 0 {
			i++
		}
		if i >= len(format) {
			break
		}
		switch format[i] {
		case '%':
			continue
		case '*':
			decline("Errorf with '*' operands")
		case 'w':
			if arg < len(a) {
				if e, ok := a[arg].(error); ok {
					return &wrapError{msg, e}
				}
			}
			return &plainError{msg}
		}
		arg++
	}
	return &plainError{msg}
}
