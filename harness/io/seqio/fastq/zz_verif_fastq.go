package fastq

// C01 (write-then-read), C03 (reader totality), C04 (layout independence) for FASTQ.

import (
	"bytes"
	"io"

	"github.com/biogo/biogo/alphabet"
	"github.com/biogo/biogo/seq"
	"github.com/biogo/biogo/seq/linear"
)

func verifRead(r *Reader) (s seq.Sequence, err error, panicked bool) {
	defer func() {
		if p := recover(); p != nil {
			if _, ok := p.(verifAssumeFailed); ok {
				panic(p)
			}
			panicked = true
		}
	}()
	s, err = r.Read()
	return
}

// VerifC03_Fastq: every byte of the input is symbolic.
func VerifC03_Fastq() {
	n := verifParam("n")
	hi := byte(127)
	if verifParam("nonascii") == 1 {
		hi = 255
	}
	data := make([]byte, n)
	lines := 0
	for i := range data {
		data[i] = verifByte("b"+string(rune('a'+i)), 0, hi)
		if data[i] == '\n' {
			lines++
		}
	}
	r := NewReader(bytes.NewReader(data), linear.NewQSeq("", nil, alphabet.DNA, alphabet.Sanger))
	calls := 0
	ended := false
	for calls < n+3 {
		s, err, panicked := verifRead(r)
		calls++
		verifAssert(!panicked, "read-never-panics")
		if panicked {
			return
		}
		verifAssert(s != nil || err != nil, "record-or-error")
		if err != nil {
			ended = true
			break
		}
	}
	verifAssert(ended, "reaches-eof-or-error")
	verifAssert(calls <= lines+2, "ends-within-one-call-per-line-plus-one")
	verifObserve("c03fq", n, calls, lines)
	verifReach("end")
}

type verifRecord struct {
	name, desc []byte
	ql         []alphabet.QLetter
}

var verifEncs = []alphabet.Encoding{alphabet.Sanger, alphabet.Illumina1_3, alphabet.Illumina1_5, alphabet.Illumina1_8, alphabet.Illumina1_9}

func verifQRange(e alphabet.Encoding) (byte, byte) {
	switch e {
	case alphabet.Illumina1_3:
		return 0, 62
	case alphabet.Illumina1_5:
		return 2, 62
	}
	return 0, 93
}

func verifMkRecords(enc alphabet.Encoding) []verifRecord {
	nrec := verifParam("records")
	recs := make([]verifRecord, nrec)
	qlo, qhi := verifQRange(enc)
	for k := range recs {
		ks := string(rune('0' + k))
		rc := verifRecord{}
		for i := 0; i < verifParam("name"); i++ {
			rc.name = append(rc.name, verifByte("n"+ks+string(rune('a'+i)), 0x21, 0x7e))
		}
		nd := verifParam("desc")
		for i := 0; i < nd; i++ {
			lo := byte(0x20)
			if i == 0 || i == nd-1 {
				lo = 0x21
			}
			rc.desc = append(rc.desc, verifByte("d"+ks+string(rune('a'+i)), lo, 0x7e))
		}
		for i := 0; i < verifParam("len"+ks); i++ {
			l := alphabet.Letter(verifByte("l"+ks+string(rune('a'+i)), 0x21, 0x7e))
			verifAssume(alphabet.DNAredundant.IsValid(l))
			q := alphabet.Qphred(verifByte("q"+ks+string(rune('a'+i)), qlo, qhi))
			rc.ql = append(rc.ql, alphabet.QLetter{L: l, Q: q})
		}
		recs[k] = rc
	}
	return recs
}

func verifWriteAll(recs []verifRecord, enc alphabet.Encoding, qid bool) []byte {
	var buf bytes.Buffer
	w := NewWriter(&buf)
	w.QID = qid
	for _, rc := range recs {
		s := linear.NewQSeq(string(rc.name), append([]alphabet.QLetter(nil), rc.ql...), alphabet.DNAredundant, enc)
		s.Desc = string(rc.desc)
		before := buf.Len()
		n, err := w.Write(s)
		verifAssert(err == nil, "write-succeeds")
		verifAssert(n == buf.Len()-before, "reported-byte-count-equals-bytes-emitted")
	}
	return buf.Bytes()
}

func verifReadAll(text []byte, enc alphabet.Encoding, max int) (out []verifRecord, ok bool) {
	rd := NewReader(bytes.NewReader(text), linear.NewQSeq("", nil, alphabet.DNAredundant, enc))
	for k := 0; k <= max+1; k++ {
		s, err := rd.Read()
		if err == io.EOF {
			return out, true
		}
		if err != nil || s == nil {
			return out, false
		}
		qs := s.(*linear.QSeq)
		out = append(out, verifRecord{[]byte(qs.Name()), []byte(qs.Description()), qs.Seq})
	}
	return out, false
}

func verifSameRecords(a, b []verifRecord, tag string) {
	verifAssert(len(a) == len(b), tag+"-same-number-of-records")
	if len(a) != len(b) {
		return
	}
	for k := range a {
		verifAssert(bytes.Equal(a[k].name, b[k].name), tag+"-same-name")
		verifAssert(bytes.Equal(a[k].desc, b[k].desc), tag+"-same-description")
		verifAssert(len(a[k].ql) == len(b[k].ql), tag+"-same-length")
		if len(a[k].ql) == len(b[k].ql) {
			for i := range a[k].ql {
				verifAssert(a[k].ql[i].L == b[k].ql[i].L, tag+"-same-letters")
				verifAssert(a[k].ql[i].Q == b[k].ql[i].Q, tag+"-same-qualities")
			}
		}
	}
}

// VerifC01_Fastq
func VerifC01_Fastq() {
	enc := verifEncs[verifParam("encoding")]
	recs := verifMkRecords(enc)
	qid := verifBool("qid")
	text := verifWriteAll(recs, enc, qid)
	got, ok := verifReadAll(text, enc, len(recs))
	verifAssert(ok, "read-back-ends-with-eof")
	verifSameRecords(recs, got, "roundtrip")
	verifObserve("c01fq", len(recs), qid, len(text))
	verifReach("end")
}

// VerifC04_Fastq
func VerifC04_Fastq() {
	enc := alphabet.Sanger
	recs := verifMkRecords(enc)
	text := verifWriteAll(recs, enc, verifBool("qid"))
	base, ok := verifReadAll(text, enc, len(recs))
	verifAssert(ok, "canonical-text-parses")
	var alt []byte
	switch verifChoice("transform", 4) {
	case 0: // blank line between records
		nlines := 0
		for _, c := range text {
			alt = append(alt, c)
			if c == '\n' {
				nlines++
				if nlines%4 == 0 {
					alt = append(alt, '\n')
				}
			}
		}
	case 1: // trailing blanks before a line end
		k := verifChoice("trailat", bytes.Count(text, []byte{'\n'}))
		seen := 0
		for _, c := range text {
			if c == '\n' {
				if seen == k {
					alt = append(alt, ' ', '\t')
				}
				seen++
			}
			alt = append(alt, c)
		}
	case 2: // CRLF
		for _, c := range text {
			if c == '\n' {
				alt = append(alt, '\r')
			}
			alt = append(alt, c)
		}
	case 3: // final terminator dropped
		alt = append(alt, text...)
		if len(alt) > 0 {
			alt = alt[:len(alt)-1]
		}
	}
	got, ok2 := verifReadAll(alt, enc, len(recs))
	verifAssert(ok2, "transformed-text-parses")
	verifSameRecords(base, got, "layout")
	verifObserve("c04fq", len(recs), len(text), len(alt))
	verifReach("end")
}

// VerifC03_FastqStructured: a four-line record whose sequence and quality lines have
// independent lengths (case-split), all their bytes symbolic, plus one arbitrary byte
// substituted at a symbolic position of the whole text. Read never panics; when the text is
// the unmutated record, it is accepted exactly when the two lengths agree (a length mismatch
// is an error).
func VerifC03_FastqStructured() {
	sl, ql := verifParam("seqlen"), verifParam("quallen")
	crlf := verifParam("crlf") == 1
	nl := []byte("\n")
	if crlf {
		nl = []byte("\r\n")
	}
	var text []byte
	text = append(text, '@', verifByte("name", 'a', 'z'))
	text = append(text, nl...)
	for i := 0; i < sl; i++ {
		text = append(text, verifByte("s"+string(rune('a'+i)), 'A', 'z'))
	}
	text = append(text, nl...)
	text = append(text, '+')
	text = append(text, nl...)
	for i := 0; i < ql; i++ {
		text = append(text, verifByte("q"+string(rune('a'+i)), '!', '~'))
	}
	if verifBool("final-newline") {
		text = append(text, nl...)
	}
	mutated := verifBool("mutate")
	if mutated {
		text[verifChoice("mutpos", len(text))] = verifByte("mutbyte", 0, 127)
	}
	r := NewReader(bytes.NewReader(text), linear.NewQSeq("", nil, alphabet.DNA, alphabet.Sanger))
	s, err, panicked := verifRead(r)
	verifAssert(!panicked, "read-never-panics")
	if panicked {
		return
	}
	verifAssert(s != nil || err != nil, "record-or-error")
	if !mutated && sl > 0 {
		if sl == ql {
			verifAssert(err == nil && s != nil && s.Len() == sl, "well-formed-record-accepted")
		} else {
			verifAssert(err != nil, "length-mismatch-is-an-error")
		}
	}
	for k := 0; k < 4 && err == nil; k++ {
		_, err, panicked = verifRead(r)
		verifAssert(!panicked, "read-never-panics")
		if panicked {
			return
		}
	}
	verifAssert(err != nil, "reaches-eof-or-error")
	verifObserve("c03fqs", sl, ql, mutated, err == io.EOF)
	verifReach("end")
}
