"""C18 stage 2: every finite table entry (as built by the real init code, read from the engine's
observation log) against its analytic definition, decided in exact real arithmetic (QF_NRA):
r = 10^(1/20) is the positive real with r^20 = 10, so 10^(x/10) = r^(2x) for integer x."""
import subprocess, time
from fractions import Fraction
import struct


def fl(bits):
    return Fraction(struct.unpack(">d", struct.pack(">q", bits))[0])


def rat(fr):
    fr = Fraction(fr)
    if fr < 0:
        return "(- %s)" % rat(-fr)
    if fr.denominator == 1:
        return "%d.0" % fr.numerator
    return "(/ %d.0 %d.0)" % (fr.numerator, fr.denominator)


def R(k):
    """SMT term for r^k, k any integer"""
    c = Fraction(10) ** (k // 20)
    m = k % 20
    if m == 0:
        return rat(c)
    return "(* %s rp%d)" % (rat(c), m)


class Z3:
    def __init__(self):
        self.p = subprocess.Popen(["z3", "-in", "-t:20000"], stdin=subprocess.PIPE, stdout=subprocess.PIPE, text=True)
        self.n = 0
        self.t = 0.0
        # r = 10^(1/20) is enclosed in a rational interval [lo,hi] of width 2^-90 (the equation
        # r^20 = 10 itself costs z3 ~12 s per query); the enclosure is discharged as obligation 0
        # and every property is shown for ALL r in [lo,hi].
        lo, hi = Fraction(1), Fraction(2)
        for _ in range(90):
            mid = (lo + hi) / 2
            if mid ** 20 <= 10:
                lo = mid
            else:
                hi = mid
        self.lo, self.hi = lo, hi
        pre = ["(declare-const r Real)", "(define-fun rp1 () Real r)"]
        for k in range(2, 21):
            pre.append("(define-fun rp%d () Real (* rp%d r))" % (k, k - 1))
        for l in pre:
            self.p.stdin.write(l + "\n")
        # obligation 0: lo^20 <= 10 <= hi^20 (so the true r lies in [lo,hi])
        def p20(x):
            return "(* " + " ".join([rat(x)] * 20) + ")"
        self.enclosure = self.refute("(not (and (<= %s 10.0) (<= 10.0 %s)))" % (p20(lo), p20(hi)))
        self.p.stdin.write("(assert (<= %s r))\n(assert (<= r %s))\n" % (rat(lo), rat(hi)))

    def refute(self, neg):
        """returns 'unsat' if the negated property is unsatisfiable (property holds)"""
        t0 = time.time()
        self.p.stdin.write("(push)\n(assert %s)\n(check-sat)\n(pop)\n" % neg)
        self.p.stdin.flush()
        ans = self.p.stdout.readline().strip()
        self.t += time.time() - t0
        self.n += 1
        return ans

    def close(self):
        self.p.stdin.close()
        self.p.wait()


def run(observations):
    tabs = {"phredE": {}, "phredSolexa": {}, "solexaE": {}, "solexaPhred": {}}
    for o in observations:
        parts = o.split()
        if parts[0] in tabs:
            tabs[parts[0]][int(parts[1])] = int(parts[2])
    viol, samples = [], []
    z = Z3()
    eps = Fraction(1, 2 ** 40)
    lo, hi = rat(1 - eps), rat(1 + eps)

    if z.enclosure != "unsat":
        viol.append({"table": "enclosure", "index": 0, "answer": "unknown", "what": "rational enclosure of 10^(1/20)"})

    def check(name, key, neg, descr):
        a = z.refute(neg)
        if a == "sat":
            # violated for some r in the enclosure: confirmed only if the property fails on the whole enclosure
            pos = neg[len("(not "):-1] if neg.startswith("(not ") else "(not %s)" % neg
            if z.refute(pos) != "unsat":
                a = "unknown"
        if a != "unsat":
            viol.append({"table": name, "index": key, "answer": a, "what": descr})
        if len(samples) < 6:
            samples.append({"table": name, "index": key, "query": neg[:160], "answer": a})

    for q, bits in sorted(tabs["phredE"].items()):
        t = rat(fl(bits))
        x = "(* %s %s)" % (t, R(2 * q))
        check("phredETable", q, "(not (and (<= %s %s) (<= %s %s)))" % (lo, x, x, hi), "ProbE(q) = 10^(-q/10) within 2^-40 relative")
    for s, bits in sorted(tabs["solexaE"].items()):
        t = rat(fl(bits))
        x = "(* %s (+ %s 1.0))" % (t, R(2 * s))
        check("solexaETable", s, "(not (and (<= %s %s) (<= %s %s)))" % (lo, x, x, hi), "ProbE(s) = 1/(1+10^(s/10)) within 2^-40 relative")
    for q, s in sorted(tabs["phredSolexa"].items()):
        if q < 1 or q > 127:
            continue  # analytic value not finite (q=0) or not representable in int8 (clamped)
        X = "(- %s 1.0)" % R(2 * q)
        check("phredSolexaTable", q, "(not (and (<= %s %s) (<= %s %s)))" % (R(2 * s - 1), X, X, R(2 * s + 1)),
              "Qsolexa(q) = round(10 log10(10^(q/10) - 1))")
    for s, q in sorted(tabs["solexaPhred"].items()):
        Y = "(+ %s 1.0)" % R(2 * s)
        check("solexaPhredTable", s, "(not (and (<= %s %s) (<= %s %s)))" % (R(2 * q - 1), Y, Y, R(2 * q + 1)),
              "Qphred(s) = round(10 log10(10^(s/10) + 1))")
    # monotonicity: a larger score never means a larger probability
    for name in ("phredE", "solexaE"):
        ks = sorted(tabs[name])
        bad = " ".join("(> %s %s)" % (rat(fl(tabs[name][b])), rat(fl(tabs[name][a]))) for a, b in zip(ks, ks[1:]))
        check(name + "Table", "monotone", "(or false %s)" % bad, "probabilities are non-increasing in the score")
    z.close()
    return {"queries": z.n, "solver_s": round(z.t, 2), "violations": viol, "samples": samples,
            "entries": {k: len(v) for k, v in tabs.items()}, "enclosure_width": "2^-90"}
