package gff

// C02 (write-then-read), C03 (reader totality), C04 (terminators) for GFF.

import (
	"bytes"
	"io"
	"math"

	"github.com/biogo/biogo/alphabet"
	"github.com/biogo/biogo/feat"
	"github.com/biogo/biogo/seq"
	"github.com/biogo/biogo/seq/linear"
)

func verifRead(r *Reader) (f feat.Feature, err error, panicked bool) {
	defer func() {
		if p := recover(); p != nil {
			if _, ok := p.(verifAssumeFailed); ok {
				panic(p)
			}
			panicked = true
		}
	}()
	f, err = r.Read()
	return
}

// VerifC03_Gff: every byte symbolic.
func VerifC03_Gff() {
	n := verifParam("n")
	data := make([]byte, n)
	lines := 0
	for i := range data {
		data[i] = verifByte("b"+string(rune('a'+i)), 0, 127)
		if data[i] == '\n' {
			lines++
		}
	}
	r := NewReader(bytes.NewReader(data))
	calls := 0
	ended := false
	for calls < n+3 {
		f, err, panicked := verifRead(r)
		calls++
		verifAssert(!panicked, "arbitrary-read-never-panics")
		if panicked {
			return
		}
		verifAssert(f != nil || err != nil, "arbitrary-record-or-error")
		if err != nil {
			ended = true
			break
		}
	}
	verifAssert(ended, "arbitrary-reaches-eof-or-error")
	verifAssert(calls <= lines+2, "arbitrary-ends-within-one-call-per-line-plus-one")
	verifObserve("c03gff", n, calls, lines)
	verifReach("end")
}

var verifNumbers = []string{"0", "-1", "7", "9223372036854775807", "9223372036854775808", "0x10", "1_0", "x", ""}

var verifMetaLines = []string{"##gff-version", "##gff-version 2", "##gff-version x", "##sequence-region a 1", "##sequence-region a 0 5",
	"##sequence-region a 1 5", "##DNA", "##DNA a", "##source-version", "##date", "##Type", "##Type DNA a", "##", "##unknown x", "#", "# comment"}

// VerifC03_GffStructured: a valid feature line with symbolic text holes and ONE symbolic
// mutation, or one of a list of (in)complete metadata lines.
func VerifC03_GffStructured() {
	var text []byte
	mustErr := false
	if verifParam("meta") == 2 {
		// sequence-region start spelled with two arbitrary printable bytes
		text = append(append([]byte("##sequence-region a "), verifByte("sym0", 0x21, 0x7e), verifByte("sym1", 0x21, 0x7e)), []byte(" 9\n")...)
	} else if verifParam("meta") == 1 {
		k := verifChoice("metaline", len(verifMetaLines))
		text = append([]byte(verifMetaLines[k]), '\n')
		switch verifMetaLines[k] {
		case "##gff-version", "##gff-version x", "##sequence-region a 1", "##sequence-region a 0 5", "##DNA", "##source-version", "##date", "##Type":
			mustErr = true // incomplete metadata line, or a sequence-region start of zero
		}
	} else {
		cols := [][]byte{
			{verifByte("seqname", 0x21, 0x7e)}, {verifByte("source", 0x21, 0x7e)}, {verifByte("feature", 0x21, 0x7e)},
			[]byte("10"), []byte("20"), []byte("."), {verifByte("strand", 0x21, 0x7e)}, {verifByte("frame", 0x21, 0x7e)},
			[]byte("tag value"), []byte("comment"),
		}
		ncols := 8 + verifChoice("extra", 3)
		use := append([][]byte(nil), cols[:ncols]...)
		mutation := verifChoice("mutation", 8)
		switch mutation {
		case 1:
			k := verifChoice("delcol", ncols)
			use = append(append([][]byte(nil), use[:k]...), use[k+1:]...)
			if len(use) < 8 {
				mustErr = true // a mandatory column is missing
			}
		case 2:
			k := verifChoice("dupcol", ncols)
			use = append(append(append([][]byte(nil), use[:k+1]...), use[k]), use[k+1:]...)
		case 3:
			use[verifChoice("emptycol", ncols)] = nil
		case 4:
			k := 3 + verifChoice("numcol", 2)
			v := verifNumbers[verifChoice("numval", len(verifNumbers))]
			use[k] = []byte(v)
			if v == "x" || v == "" || v == "9223372036854775808" || (k == 3 && v == "0") {
				mustErr = true // non-numeric coordinate, or a GFF start of zero
			}
		case 5:
			use[5] = []byte([]string{"1.5", "x", "1e400", "-0", "Inf"}[verifChoice("score", 5)])
		case 7: // a coordinate column spelled with two arbitrary printable bytes ("00", "-0", "+5", "0x", ...)
			k := 3 + verifChoice("symcol", 2)
			use[k] = []byte{verifByte("sym0", 0x21, 0x7e), verifByte("sym1", 0x21, 0x7e)}
		}
		line := bytes.Join(use, []byte{'\t'})
		if mutation == 6 {
			line = line[:verifChoice("cut", len(line))]
		}
		text = append(append([]byte(nil), line...), '\n')
	}
	r := NewReader(bytes.NewReader(text))
	f, rerr, panicked := verifRead(r)
	verifAssert(!panicked, "structured-read-never-panics")
	if panicked {
		return
	}
	verifAssert(f != nil || rerr != nil, "structured-record-or-error")
	if mustErr {
		verifAssert(rerr != nil, "structurally-invalid-line-is-an-error")
	}
	if rerr == nil {
		_, rerr2, panicked2 := verifRead(r)
		verifAssert(!panicked2 && rerr2 == io.EOF, "structured-then-eof")
	}
	verifObserve("c03gffs", len(text), rerr != nil)
	verifReach("end")
}

// printable, tab-free, trimmed, not starting with '#'
func verifText(name string, n int) string {
	b := make([]byte, n)
	for i := range b {
		lo := byte(0x20)
		if i == 0 || i == n-1 {
			lo = 0x21
		}
		b[i] = verifByte(name+string(rune('a'+i)), lo, 0x7e)
	}
	verifAssume(b[0] != '#')
	return string(b)
}

var verifScores = []float64{0, 1, -1.5, 1e-7, math.Inf(1), 123456.75}

// VerifC02_Gff: a GFF feature survives write-then-read; the text carries 1-based inclusive
// coordinates while the parsed feature exposes the same interval zero-based half-open.
func VerifC02_Gff() {
	tl := verifParam("textlen")
	wide := verifParam("wide")
	var start, length int
	if wide == 0 {
		start = verifInt("start", -verifParam("maxneg"), verifParam("maxpos"))
	} else {
		start = verifInt("start", 1, 9)
	}
	if wide == 1 {
		length = verifInt("length", 1, 999)
	} else {
		length = verifInt("length", 1, 9)
	}
	f := &Feature{
		SeqName: verifText("seq", tl), Source: verifText("src", tl), Feature: verifText("feat", tl),
		FeatStart: start, FeatEnd: start + length,
		FeatStrand: seq.Strand(verifInt("strand", -1, 1)),
		FeatFrame:  Frame(verifInt("frame", -1, 2)),
	}
	if k := verifParam("score"); k > 0 {
		sc := verifScores[k-1]
		f.FeatScore = &sc
	}
	na := verifParam("attrs")
	for i := 0; i < na; i++ {
		is := string(rune('0' + i))
		tag := string([]byte{verifByte("tag"+is, 'a', 'z')})
		val := []byte{verifByte("val"+is, 0x21, 0x7e)}
		verifAssume(val[0] != ';')
		f.FeatAttributes = append(f.FeatAttributes, Attribute{Tag: tag, Value: string(val)})
	}
	if verifParam("comment") == 1 {
		f.Comments = verifText("cmt", tl)
	}
	header := verifParam("header") == 1
	var buf bytes.Buffer
	w := NewWriter(&buf, 60, header)
	hdr := buf.Len()
	n, err := w.Write(f)
	verifAssert(err == nil, "write-succeeds")
	verifAssert(n == buf.Len()-hdr, "reported-byte-count-equals-bytes-emitted")
	// the text carries one-based inclusive coordinates
	text := buf.Bytes()[hdr:]
	cols := bytes.Split(bytes.TrimSpace(text), []byte{'\t'})
	verifAssert(len(cols) >= 8, "at-least-eight-columns")

	r := NewReader(bytes.NewReader(buf.Bytes()))
	g0, err := r.Read()
	verifAssert(err == nil && g0 != nil, "read-back-succeeds")
	if err != nil || g0 == nil {
		return
	}
	g, ok := g0.(*Feature)
	verifAssert(ok, "read-back-is-a-feature")
	if !ok {
		return
	}
	verifAssert(g.SeqName == f.SeqName && g.Source == f.Source && g.Feature == f.Feature, "text-fields")
	verifAssert(g.FeatStart == f.FeatStart && g.FeatEnd == f.FeatEnd && g.Len() == f.Len(), "start-end-len-preserved")
	verifAssert(g.FeatStrand == f.FeatStrand, "strand")
	wantFrame := f.FeatFrame
	verifAssert(g.FeatFrame == wantFrame, "frame")
	verifAssert((g.FeatScore == nil) == (f.FeatScore == nil), "score-presence")
	if g.FeatScore != nil && f.FeatScore != nil {
		verifAssert(*g.FeatScore == *f.FeatScore, "score-value")
	}
	verifAssert(len(g.FeatAttributes) == len(f.FeatAttributes), "attribute-count")
	if len(g.FeatAttributes) == len(f.FeatAttributes) {
		for i := range f.FeatAttributes {
			verifAssert(g.FeatAttributes[i].Tag == f.FeatAttributes[i].Tag && g.FeatAttributes[i].Value == f.FeatAttributes[i].Value, "attributes")
		}
	}
	verifAssert(g.Comments == f.Comments, "comments")
	_, err = r.Read()
	verifAssert(err == io.EOF, "single-record-then-eof")
	verifObserve("c02gff", buf.Len(), n)
	verifReach("end")
}

// VerifC02_GffRegion: sequence-region lines and inline sequences round-trip.
func VerifC02_GffRegion() {
	tl := verifParam("textlen")
	var buf bytes.Buffer
	w := NewWriter(&buf, 3, false)
	name := []byte(verifText("seq", tl))
	for _, c := range name {
		verifAssume(c != ' ')
	}
	start := verifInt("start", 0, 999)
	reg := &Region{Sequence: Sequence{SeqName: string(name)}, RegionStart: start, RegionEnd: start + verifInt("length", 1, 99)}
	n, err := w.Write(reg)
	verifAssert(err == nil && n == buf.Len(), "region-write-count")
	nl := verifParam("len")
	ls := make([]alphabet.Letter, nl)
	for i := range ls {
		ls[i] = alphabet.Letter(verifByte("l"+string(rune('a'+i)), 0x21, 0x7e))
		verifAssume(alphabet.DNA.IsValid(ls[i]))
	}
	s := linear.NewSeq(string(name), ls, alphabet.DNA)
	before := buf.Len()
	n, err = w.Write(s)
	verifAssert(err == nil && n == buf.Len()-before, "sequence-write-count")
	r := NewReader(bytes.NewReader(buf.Bytes()))
	g0, err := r.Read()
	verifAssert(err == nil, "region-read-back")
	if rg, ok := g0.(*Region); ok {
		verifAssert(rg.SeqName == reg.SeqName && rg.RegionStart == reg.RegionStart && rg.RegionEnd == reg.RegionEnd, "region-fields")
	} else {
		verifFail("region-type")
	}
	g1, err := r.Read()
	verifAssert(err == nil, "sequence-read-back")
	if sq, ok := g1.(*linear.Seq); ok {
		verifAssert(sq.Name() == string(name) && sq.Len() == nl, "inline-sequence-name-and-length")
		if sq.Len() == nl {
			for i := range ls {
				verifAssert(sq.Seq[i] == ls[i], "inline-sequence-letters")
			}
		}
	} else {
		verifFail("sequence-type")
	}
	verifObserve("c02gffr", buf.Len())
	verifReach("end")
}

// VerifC04_Gff: CRLF or LF, with or without a final newline.
func VerifC04_Gff() {
	nrec := verifParam("records")
	var text []byte
	for k := 0; k < nrec; k++ {
		ks := string(rune('0' + k))
		line := [][]byte{[]byte(verifText("q"+ks, 1)), []byte("s"), []byte("f"), []byte("1" + ks), []byte("2" + ks), []byte("."), {verifByte("st"+ks, 0x21, 0x7e)}, []byte(".")}
		text = append(text, bytes.Join(line, []byte{'\t'})...)
		text = append(text, '\n')
	}
	parse := func(t []byte) (out []string, errs int) {
		r := NewReader(bytes.NewReader(t))
		for k := 0; k < nrec+2; k++ {
			f, err := r.Read()
			if err == io.EOF {
				return
			}
			if err != nil {
				errs++
				continue
			}
			out = append(out, f.Location().Name()+":"+string(rune('0'+f.Start()%10))+string(rune('0'+f.End()%10)))
		}
		return
	}
	base, berrs := parse(text)
	var alt []byte
	switch verifChoice("transform", 3) {
	case 0:
		for _, c := range text {
			if c == '\n' {
				alt = append(alt, '\r')
			}
			alt = append(alt, c)
		}
	case 1:
		alt = append(alt, text[:len(text)-1]...)
	case 2:
		for _, c := range text[:len(text)-1] {
			if c == '\n' {
				alt = append(alt, '\r')
			}
			alt = append(alt, c)
		}
	}
	got, gerrs := parse(alt)
	verifAssert(len(got) == len(base) && gerrs == berrs, "layout-same-number-of-features")
	if len(got) == len(base) {
		for k := range got {
			verifAssert(got[k] == base[k], "layout-same-features")
		}
	}
	verifObserve("c04gff", nrec, len(base), len(got))
	verifReach("end")
}

// VerifC04_GffMeta: comment lines, a sequence-region line and an inline sequence block (with
// an optional blank line inside it) followed by an optional feature line: the items read are
// the same with CRLF or LF and with or without the final newline.
func VerifC04_GffMeta() {
	blank, trailingFeature := verifParam("blank") == 1, verifParam("feature") == 1
	var lines [][]byte
	lines = append(lines, []byte("# a comment"))
	lines = append(lines, []byte("##sequence-region q 1 9"))
	lines = append(lines, []byte("##DNA q"))
	lines = append(lines, []byte{'#', '#', verifByte("la", 'a', 't'), verifByte("lb", 'a', 't')})
	if blank {
		lines = append(lines, nil)
	}
	lines = append(lines, []byte{'#', '#', verifByte("lc", 'a', 't')})
	lines = append(lines, []byte("##end-DNA"))
	if trailingFeature {
		lines = append(lines, bytes.Join([][]byte{[]byte("q"), []byte("s"), []byte("f"), []byte("1"), []byte("2"), []byte("."), {verifByte("st", 0x21, 0x7e)}, []byte(".")}, []byte{'\t'}))
	}
	var text []byte
	for _, l := range lines {
		text = append(text, l...)
		text = append(text, '\n')
	}
	parse := func(t []byte) (out []string, errs int) {
		r := NewReader(bytes.NewReader(t))
		for k := 0; k < len(lines)+2; k++ {
			f, err := r.Read()
			if err == io.EOF {
				return
			}
			if err != nil {
				errs++
				continue
			}
			switch x := f.(type) {
			case *linear.Seq:
				out = append(out, "seq:"+x.Name()+":"+string(alphabet.LettersToBytes(x.Seq)))
			case *Region:
				out = append(out, "region:"+x.SeqName+":"+string(rune('0'+x.RegionStart%10))+string(rune('0'+x.RegionEnd%10)))
			default:
				out = append(out, "feature:"+f.Location().Name()+":"+string(rune('0'+f.Start()%10))+string(rune('0'+f.End()%10)))
			}
		}
		return
	}
	base, berrs := parse(text)
	var alt []byte
	switch verifChoice("transform", 3) {
	case 0:
		for _, c := range text {
			if c == '\n' {
				alt = append(alt, '\r')
			}
			alt = append(alt, c)
		}
	case 1:
		alt = append(alt, text[:len(text)-1]...)
	case 2:
		for _, c := range text[:len(text)-1] {
			if c == '\n' {
				alt = append(alt, '\r')
			}
			alt = append(alt, c)
		}
	}
	got, gerrs := parse(alt)
	verifAssert(len(got) == len(base) && gerrs == berrs, "layout-same-number-of-items")
	if len(got) == len(base) {
		for k := range got {
			verifAssert(got[k] == base[k], "layout-same-items")
		}
	}
	verifObserve("c04gffm", len(base), berrs, len(got), gerrs)
	verifReach("end")
}
