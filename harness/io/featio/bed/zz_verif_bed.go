package bed

// C02 (write-then-read), C03 (reader totality), C04 (terminators) for BED.

import (
	"bytes"
	"image/color"
	"io"

	"github.com/biogo/biogo/feat"
	"github.com/biogo/biogo/seq"
)

func verifRead(r *Reader) (f feat.Feature, err error, panicked bool) {
	defer func() {
		if p := recover(); p != nil {
			if _, ok := p.(verifAssumeFailed); ok {
				panic(p)
			}
			panicked = true
		}
	}()
	f, err = r.Read()
	return
}

func verifDrive(data []byte, bedType, lines int, tag string) {
	r, err := NewReader(bytes.NewReader(data), bedType)
	verifAssert(err == nil, "reader-accepts-bed-type")
	calls := 0
	ended := false
	for calls < len(data)+3 {
		f, err, panicked := verifRead(r)
		calls++
		verifAssert(!panicked, tag+"-read-never-panics")
		if panicked {
			return
		}
		verifAssert(f != nil || err != nil, tag+"-record-or-error")
		if err == io.EOF {
			ended = true
			break
		}
	}
	verifAssert(ended, tag+"-reaches-eof")
	verifAssert(calls <= lines+2, tag+"-ends-within-one-call-per-line-plus-one")
}

// VerifC03_Bed: every byte symbolic.
func VerifC03_Bed() {
	n, bedType := verifParam("n"), verifParam("bedtype")
	data := make([]byte, n)
	lines := 0
	for i := range data {
		data[i] = verifByte("b"+string(rune('a'+i)), 0, 127)
		if data[i] == '\n' {
			lines++
		}
	}
	verifDrive(data, bedType, lines, "arbitrary")
	verifObserve("c03bed", n, bedType, lines)
	verifReach("end")
}

// numeric boundary values and malformed numbers for structured mutation
var verifNumbers = []string{"0", "-1", "7", "9223372036854775807", "9223372036854775808", "0x10", "1_0", "x", ""}

// VerifC03_BedStructured: a valid line with symbolic text holes and ONE symbolic mutation
// (delete / duplicate / empty a column, replace a numeric column by a boundary value, truncate).
func VerifC03_BedStructured() {
	bedType := verifParam("bedtype")
	cols := [][]byte{
		{verifByte("chrom", 0x21, 0x7e)}, []byte("10"), []byte("20"),
		{verifByte("name", 0x21, 0x7e)}, []byte("5"), {verifByte("strand", 0x21, 0x7e)},
		[]byte("12"), []byte("18"), []byte("1,2,3"), []byte("2"), []byte("5,6"), []byte("0,7"),
	}
	ncols := bedType
	use := append([][]byte(nil), cols[:ncols]...)
	missing := false
	mutation := verifChoice("mutation", 7)
	switch mutation {
	case 6: // a numeric column spelled with two arbitrary printable bytes
		numeric := []int{1, 2, 4, 6, 7, 9}
		var ks []int
		for _, k := range numeric {
			if k < ncols {
				ks = append(ks, k)
			}
		}
		use[ks[verifChoice("symcol", len(ks))]] = []byte{verifByte("sym0", 0x21, 0x7e), verifByte("sym1", 0x21, 0x7e)}
	case 1:
		k := verifChoice("delcol", ncols)
		use = append(append([][]byte(nil), use[:k]...), use[k+1:]...)
		missing = true
	case 2:
		k := verifChoice("dupcol", ncols)
		use = append(append(append([][]byte(nil), use[:k+1]...), use[k]), use[k+1:]...)
	case 3:
		use[verifChoice("emptycol", ncols)] = nil
	case 4:
		numeric := []int{1, 2, 4, 6, 7, 8, 9, 10, 11}
		var ks []int
		for _, k := range numeric {
			if k < ncols {
				ks = append(ks, k)
			}
		}
		use[ks[verifChoice("numcol", len(ks))]] = []byte(verifNumbers[verifChoice("numval", len(verifNumbers))])
	}
	line := bytes.Join(use, []byte{'\t'})
	if mutation == 5 {
		line = line[:verifChoice("cut", len(line))]
	}
	text := append(append([]byte(nil), line...), '\n')
	r, err := NewReader(bytes.NewReader(text), bedType)
	verifAssert(err == nil, "reader-accepts-bed-type")
	f, rerr, panicked := verifRead(r)
	verifAssert(!panicked, "structured-read-never-panics")
	if panicked {
		return
	}
	verifAssert(f != nil || rerr != nil, "structured-record-or-error")
	if missing {
		verifAssert(rerr != nil, "missing-mandatory-column-is-an-error")
	}
	_, rerr2, panicked2 := verifRead(r)
	verifAssert(!panicked2 && rerr2 == io.EOF, "structured-then-eof")
	verifObserve("c03beds", bedType, len(text), rerr != nil)
	verifReach("end")
}

// printable, tab-free, not starting with '#', no leading/trailing blank
func verifText(name string, n int) string {
	b := make([]byte, n)
	for i := range b {
		lo := byte(0x20)
		if i == 0 || i == n-1 {
			lo = 0x21
		}
		b[i] = verifByte(name+string(rune('a'+i)), lo, 0x7e)
	}
	verifAssume(b[0] != '#')
	return string(b)
}

// verifCoord: the field selected by param "wide" ranges over [-99,999] (all sign and digit-count
// classes); the other numeric fields stay symbolic in [0,9]. Jobs rotate the wide field, which
// keeps the number of decimal-shape paths additive instead of multiplicative.
func verifCoord(name string) int {
	if verifWide(name) {
		return verifInt(name, -99, 999)
	}
	return verifInt(name, 1, 9) // one decimal shape: no sign, one digit, no base prefix
}

var verifWideNames = []string{"start", "end", "score", "tstart", "tend", "bs0", "bo0", "r", "g", "b", "bs1", "bo1"}

func verifWide(name string) bool {
	w := verifParam("wide")
	return w >= 0 && w < len(verifWideNames) && verifWideNames[w] == name
}

// VerifC02_Bed: a BED-n record written at width m <= n reads back as its first m columns.
func VerifC02_Bed() {
	n, m := verifParam("n"), verifParam("m")
	tl := verifParam("textlen")
	b12 := &Bed12{
		Chrom: verifText("chrom", tl), ChromStart: verifCoord("start"), ChromEnd: verifCoord("end"),
		FeatName: verifText("name", tl), FeatScore: verifCoord("score"),
		FeatStrand: seq.Strand(verifInt("strand", -1, 1)),
		ThickStart: verifCoord("tstart"), ThickEnd: verifCoord("tend"),
	}
	if verifBool("colored") {
		comp := func(name string) byte {
			if verifWide(name) {
				return verifByte(name, 0, 255)
			}
			return verifByte(name, 0, 9) // includes opaque black and zero components
		}
		b12.Rgb = color.RGBA{R: comp("r"), G: comp("g"), B: comp("b"), A: 0xff}
	}
	nb := verifParam("blocks")
	b12.BlockCount = nb
	for i := 0; i < nb; i++ {
		b12.BlockSizes = append(b12.BlockSizes, verifCoord("bs"+string(rune('0'+i))))
		b12.BlockStarts = append(b12.BlockStarts, verifCoord("bo"+string(rune('0'+i))))
	}
	var rec Bed
	switch n {
	case 3:
		rec = &Bed3{b12.Chrom, b12.ChromStart, b12.ChromEnd}
	case 4:
		rec = &Bed4{b12.Chrom, b12.ChromStart, b12.ChromEnd, b12.FeatName}
	case 5:
		rec = &Bed5{b12.Chrom, b12.ChromStart, b12.ChromEnd, b12.FeatName, b12.FeatScore}
	case 6:
		rec = &Bed6{b12.Chrom, b12.ChromStart, b12.ChromEnd, b12.FeatName, b12.FeatScore, b12.FeatStrand}
	default:
		rec = b12
	}
	var buf bytes.Buffer
	w, err := NewWriter(&buf, m)
	verifAssert(err == nil, "writer-accepts-width")
	cnt, err := w.Write(rec)
	verifAssert(err == nil, "write-succeeds")
	verifAssert(cnt == buf.Len(), "reported-byte-count-equals-bytes-emitted")
	r, err := NewReader(bytes.NewReader(buf.Bytes()), m)
	verifAssert(err == nil, "reader-accepts-width")
	f, err := r.Read()
	verifAssert(err == nil && f != nil, "read-back-succeeds")
	if err != nil || f == nil {
		return
	}
	var g Bed12
	switch v := f.(type) {
	case *Bed3:
		g = Bed12{Chrom: v.Chrom, ChromStart: v.ChromStart, ChromEnd: v.ChromEnd}
	case *Bed4:
		g = Bed12{Chrom: v.Chrom, ChromStart: v.ChromStart, ChromEnd: v.ChromEnd, FeatName: v.FeatName}
	case *Bed5:
		g = Bed12{Chrom: v.Chrom, ChromStart: v.ChromStart, ChromEnd: v.ChromEnd, FeatName: v.FeatName, FeatScore: v.FeatScore}
	case *Bed6:
		g = Bed12{Chrom: v.Chrom, ChromStart: v.ChromStart, ChromEnd: v.ChromEnd, FeatName: v.FeatName, FeatScore: v.FeatScore, FeatStrand: v.FeatStrand}
	case *Bed12:
		g = *v
	}
	verifAssert(g.Chrom == b12.Chrom && g.ChromStart == b12.ChromStart && g.ChromEnd == b12.ChromEnd, "first-three-columns")
	if m >= 4 {
		verifAssert(g.FeatName == b12.FeatName, "name-column")
	}
	if m >= 5 {
		verifAssert(g.FeatScore == b12.FeatScore, "score-column")
	}
	if m >= 6 {
		verifAssert(g.FeatStrand == b12.FeatStrand, "strand-column")
	}
	if m >= 12 {
		verifAssert(g.ThickStart == b12.ThickStart && g.ThickEnd == b12.ThickEnd, "thick-columns")
		verifAssert(g.Rgb == b12.Rgb, "colour-column")
		verifAssert(g.BlockCount == nb && len(g.BlockSizes) == nb && len(g.BlockStarts) == nb, "block-count")
		if len(g.BlockSizes) == nb && len(g.BlockStarts) == nb {
			for i := 0; i < nb; i++ {
				verifAssert(g.BlockSizes[i] == b12.BlockSizes[i] && g.BlockStarts[i] == b12.BlockStarts[i], "block-columns")
			}
		}
	}
	_, err = r.Read()
	verifAssert(err == io.EOF, "single-record-then-eof")
	verifObserve("c02bed", n, m, buf.Len())
	verifReach("end")
}

// VerifC04_Bed: CRLF or LF, with or without a final newline, give the same features.
func VerifC04_Bed() {
	bedType := verifParam("bedtype")
	nrec := verifParam("records")
	var text []byte
	for k := 0; k < nrec; k++ {
		ks := string(rune('0' + k))
		line := [][]byte{[]byte(verifText("c"+ks, 1)), []byte("1" + ks), []byte("2" + ks), []byte(verifText("n"+ks, 1)), []byte("7"), {verifByte("s"+ks, 0x21, 0x7e)},
			[]byte("1"), []byte("2"), []byte("0"), []byte("1"), []byte("5"), []byte("0")}
		text = append(text, bytes.Join(line[:bedType], []byte{'\t'})...)
		text = append(text, '\n')
	}
	parse := func(t []byte) (out []string, errs int) {
		r, _ := NewReader(bytes.NewReader(t), bedType)
		for k := 0; k < nrec+2; k++ {
			f, err := r.Read()
			if err == io.EOF {
				return
			}
			if err != nil {
				errs++
				continue
			}
			out = append(out, f.Location().Name()+":"+string(rune('0'+f.Start()%10))+string(rune('0'+f.End()%10)))
		}
		return
	}
	base, berrs := parse(text)
	var alt []byte
	switch verifChoice("transform", 3) {
	case 0:
		for _, c := range text {
			if c == '\n' {
				alt = append(alt, '\r')
			}
			alt = append(alt, c)
		}
	case 1:
		alt = append(alt, text[:len(text)-1]...)
	case 2:
		for _, c := range text[:len(text)-1] {
			if c == '\n' {
				alt = append(alt, '\r')
			}
			alt = append(alt, c)
		}
	}
	got, gerrs := parse(alt)
	verifAssert(len(got) == len(base) && gerrs == berrs, "layout-same-number-of-features")
	if len(got) == len(base) {
		for k := range got {
			verifAssert(got[k] == base[k], "layout-same-features")
		}
	}
	verifObserve("c04bed", bedType, nrec, len(base), len(got))
	verifReach("end")
}
