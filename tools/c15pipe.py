import sys,json,os
sys.path.insert(0,'/verif')
import vcheck, checks
shapes=json.loads(sys.argv[1])
keys=["tlen","qlen","k","n","e","offset","minlen","minid","plen","tpos","qpos","recall"]
jobs=[{"pkgdir":"align/pals","func":"VerifC15_Pipeline","sched":"det","fsmodel":True,"floatsplit":True,"math":True,"params":dict(zip(keys,s)),"timeout_s":1500} for s in shapes]
checks.CHECKS["C15P"]={"jobs":lambda t:jobs,"functions":[],"explanation":"","outside":""}
rc=vcheck.run_check("C15P","quick")
d=json.load(open('/verif/out/gen/C15P/result.json'))
for j in d['jobs']:
    print(j['params'],'paths',j['paths'],'done',j['paths_done'],'q',j['queries'],'solver',round(j['solver_s'],1),'wall',round(j['wall_s'],1),j['assert_checks'],(j['undecided'] or [''])[0][:400])
print('rc',rc)
try: os.remove('/verif/evidence/C15P.json')
except OSError: pass
