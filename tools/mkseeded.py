#!/usr/bin/env python3
"""tools/mkseeded.py [annotate NAME LOG [history]] — record a check result in seeded/NAME/meta.json,
and regenerate SEEDED.md from all seeded/*/meta.json."""
import json, os, re, sys, glob
V = '/verif'
if len(sys.argv) >= 4 and sys.argv[1] == 'annotate':
    name, log = sys.argv[2], open(sys.argv[3]).read()
    mp = os.path.join(V, 'seeded', name, 'meta.json')
    m = json.load(open(mp))
    labels = sorted(set(re.findall(r'VIOLATION property=\S+ replay=\S+ label=(.*)', log)))
    last = log.strip().split('\n')[-1]
    if labels:
        res = 'VIOLATION (exit 1): ' + '; '.join(l[:120] for l in labels[:3])
    elif 'UNDECIDED' in log:
        res = 'UNDECIDED (exit 2): ' + (re.findall(r'UNDECIDED property=\S+ reason=(.*)', log) or [''])[0][:200]
    else:
        res = 'HELD (exit 0) — MISSED' if m.get('kind', '').startswith('behaviour') is False else 'HELD'
    m['confirmed_by_me'] = 'tools/seedrun.sh: demo passes on the unpatched scratch worktree, fails with the patch; pinned suite passes with the patch'
    m['check_run'] = 'scratch worktree of /repo HEAD with patch.diff applied, VERIF_REPO=<worktree> python3 vcheck.py %s quick' % m.get('property', name[:3])
    m['check_result'] = res
    m['check_summary_line'] = last[:300]
    if len(sys.argv) > 4:
        m['history'] = sys.argv[4]
    json.dump(m, open(mp, 'w'), indent=1)
    print(name, res[:160])
rows = []
for mp in sorted(glob.glob(os.path.join(V, 'seeded', '*', 'meta.json'))):
    name = os.path.basename(os.path.dirname(mp))
    m = json.load(open(mp))
    kind = 'refactoring (must stay silent)' if m.get('kind', '').startswith('behaviour') else 'breaking'
    res = m.get('check_result') or m.get('result', '')
    rows.append('| %s | %s | %s | %s | %s |' % (name, kind, str(m.get('summary', '')).replace('|', '/').replace('\n', ' ')[:420], str(res).replace('|', '/')[:200], str(m.get('history', m.get('first_run', ''))).replace('|', '/')[:260]))
out = ['# Seeded changes (produced by independent sub-agents, confirmed, run against the checks)', '',
       'Breaking changes must be reported as VIOLATION by the quick check of their property; behaviour-preserving',
       'refactorings (round 3) must leave the check silent (HELD). Regenerate with tools/mkseeded.py.', '',
       '| seeded change | kind | what it does | result of the check | history |', '|---|---|---|---|---|'] + rows
open(os.path.join(V, 'SEEDED.md'), 'w').write('\n'.join(out) + '\n')
print(len(rows), 'rows')
