package feat

// C20 — 1-based/0-based conversions are mutually inverse (64-bit range minus the two extremes).
func VerifC20_OneZero() {
	const lim = 1<<62 - 1
	p := verifInt("p", -lim, lim)
	verifAssert(OneToZero(ZeroToOne(p)) == p, "one-to-zero-of-zero-to-one")
	q := verifInt("q", -lim, lim)
	verifAssume(q != 0)
	verifAssert(ZeroToOne(OneToZero(q)) == q, "zero-to-one-of-one-to-zero")
	verifAssert(ZeroToOne(p) != 0, "zero-to-one-never-zero")
	if p >= 0 {
		verifAssert(ZeroToOne(p) == p+1, "non-negative-shift")
	} else {
		verifAssert(ZeroToOne(p) == p, "negative-unchanged")
	}
	verifObserve("c20z", p, q, ZeroToOne(p), OneToZero(q))
	verifReach("end")
}
