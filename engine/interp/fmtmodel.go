package interp

// Minimal fmt intrinsics: formatting is delegated to the host's fmt on concrete
// operands; symbolic operands are rendered as "?" (error messages and debug
// strings only — writers whose output is a verification subject use the Go model
// package instead).

import (
	"fmt"
	"go/types"
)

func (fr *frame) hostArg(v value) interface{} {
	switch v := v.(type) {
	case iface:
		if v.t == nil {
			return nil
		}
		// error / Stringer
		for _, name := range []string{"Error", "String"} {
			if m := fr.methodNamed(v.t, name); m != nil {
				func() {
					defer func() {
						if p := recover(); p != nil {
							switch p.(type) {
							case pathEnd, unsupportedErr, goroutineKill, regionAbort:
								panic(p)
							}
						}
					}()
				}()
				r := call(fr.i, fr, 0, m, []value{v.v})
				if s, ok := r.(string); ok {
					return s
				}
				return "?"
			}
		}
		return fr.hostArg(v.v)
	case sv, symstr:
		return "?"
	case []value:
		b := make([]byte, 0, len(v))
		for _, c := range v {
			u, ok := c.(uint8)
			if !ok {
				return "?"
			}
			b = append(b, u)
		}
		return b
	case *value:
		if v == nil {
			return nil
		}
		return "&?"
	case structure, array, *omap, *closure:
		return "?"
	}
	return v
}

func (fr *frame) methodNamed(t types.Type, name string) value {
	ms := fr.i.prog.MethodSets.MethodSet(t)
	for k := 0; k < ms.Len(); k++ {
		sel := ms.At(k)
		if sel.Obj().Name() == name {
			sig := sel.Type().(*types.Signature)
			if sig.Params().Len() == 0 && sig.Results().Len() == 1 {
				if b, ok := sig.Results().At(0).Type().Underlying().(*types.Basic); ok && b.Kind() == types.String {
					if f := fr.i.prog.MethodValue(sel); f != nil {
						return f
					}
				}
			}
		}
	}
	return nil
}

func (fr *frame) hostArgs(vs value) []interface{} {
	var out []interface{}
	for _, v := range vs.([]value) {
		out = append(out, fr.hostArg(v))
	}
	return out
}

func (fr *frame) newError(msg string) value {
	ep := fr.i.prog.ImportedPackage("errors")
	if ep == nil {
		panic(unsupported("errors package not loaded"))
	}
	t := ep.Type("errorString").Type()
	var cell value = structure{msg}
	return iface{t: types.NewPointer(t), v: &cell}
}

func init() {
	for k, v := range map[string]func(fr *frame, args []value) value{
		"fmt.Errorf": func(fr *frame, args []value) value {
			return fr.newError(fmt.Sprintf(goString(args[0]), fr.hostArgs(args[1])...))
		},
		"fmt.Sprintf": func(fr *frame, args []value) value {
			return fmt.Sprintf(goString(args[0]), fr.hostArgs(args[1])...)
		},
		"fmt.Sprint": func(fr *frame, args []value) value {
			return fmt.Sprint(fr.hostArgs(args[0])...)
		},
		"fmt.Sprintln": func(fr *frame, args []value) value {
			return fmt.Sprintln(fr.hostArgs(args[0])...)
		},
		"fmt.Println": func(fr *frame, args []value) value { return tuple{0, iface{}} },
		"fmt.Printf":  func(fr *frame, args []value) value { return tuple{0, iface{}} },
		"fmt.Print":   func(fr *frame, args []value) value { return tuple{0, iface{}} },
	} {
		stdIntrinsicsExtra[k] = v
	}
}

var stdIntrinsicsExtra = map[string]func(fr *frame, args []value) value{}
