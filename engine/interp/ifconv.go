package interp

// If-conversion of pure acyclic regions: both arms of a symbolic branch are
// evaluated and joined with ite terms instead of forking the path.

import (
	"go/token"
	"go/types"

	"golang.org/x/tools/go/ssa"

	"verif/engine/sym"
)

type pdomInfo struct {
	ipdom map[*ssa.BasicBlock]*ssa.BasicBlock // nil value = function exit
}

type regionInfo struct {
	join    *ssa.BasicBlock   // nil: region ends in returns
	order   []*ssa.BasicBlock // topological order (excluding the If block and join)
	inReg   map[*ssa.BasicBlock]bool
	returns bool
}

type regionAbort struct{ why string }

const (
	maxRegionBlocks = 24
	maxRegionInstrs = 160
)

func (i *interpreter) pdomOf(fn *ssa.Function) *pdomInfo {
	if p, ok := i.pdom[fn]; ok {
		return p
	}
	n := len(fn.Blocks)
	// pd[b] = set of post-dominators of b (as bool slices), including virtual exit index n
	pd := make([][]bool, n)
	isExit := make([]bool, n)
	for _, b := range fn.Blocks {
		if len(b.Succs) == 0 {
			isExit[b.Index] = true
		}
	}
	for k := range pd {
		pd[k] = make([]bool, n+1)
		for j := range pd[k] {
			pd[k][j] = true
		}
	}
	changed := true
	for changed {
		changed = false
		for k := n - 1; k >= 0; k-- {
			b := fn.Blocks[k]
			nw := make([]bool, n+1)
			if isExit[k] {
				nw[n] = true
			} else {
				for j := range nw {
					nw[j] = true
				}
				for _, s := range b.Succs {
					for j := range nw {
						nw[j] = nw[j] && pd[s.Index][j]
					}
				}
			}
			nw[k] = true
			for j := range nw {
				if nw[j] != pd[k][j] {
					changed = true
					break
				}
			}
			pd[k] = nw
		}
	}
	count := func(s []bool) int {
		c := 0
		for _, x := range s {
			if x {
				c++
			}
		}
		return c
	}
	info := &pdomInfo{ipdom: map[*ssa.BasicBlock]*ssa.BasicBlock{}}
	for k, b := range fn.Blocks {
		want := count(pd[k]) - 1
		var ip *ssa.BasicBlock
		found := false
		for j := 0; j < n; j++ {
			if j != k && pd[k][j] && count(pd[j]) == want {
				ip = fn.Blocks[j]
				found = true
				break
			}
		}
		if !found {
			ip = nil // virtual exit
		}
		info.ipdom[b] = ip
	}
	i.pdom[fn] = info
	return info
}

// pureFn reports whether fn can be evaluated entirely under a guard.
func (i *interpreter) pureFn(fn *ssa.Function) bool {
	if v, ok := i.pure[fn]; ok {
		return v == 1
	}
	i.pure[fn] = 0 // in progress => recursive => impure
	ok := i.pureFnCheck(fn)
	if ok {
		i.pure[fn] = 1
	}
	return ok
}

func (i *interpreter) pureFnCheck(fn *ssa.Function) bool {
	if fn == nil || fn.Blocks == nil || fn.Recover != nil || len(fn.Blocks) > maxRegionBlocks {
		return false
	}
	res := fn.Signature.Results()
	for k := 0; k < res.Len(); k++ {
		if !scalarType(res.At(k).Type()) {
			return false
		}
	}
	// acyclic: every successor has a larger index is not guaranteed; do DFS
	color := make([]int8, len(fn.Blocks))
	var dfs func(b *ssa.BasicBlock) bool
	dfs = func(b *ssa.BasicBlock) bool {
		color[b.Index] = 1
		for _, s := range b.Succs {
			if color[s.Index] == 1 {
				return false
			}
			if color[s.Index] == 0 && !dfs(s) {
				return false
			}
		}
		color[b.Index] = 2
		return true
	}
	if !dfs(fn.Blocks[0]) {
		return false
	}
	n := 0
	for _, b := range fn.Blocks {
		for _, in := range b.Instrs {
			n++
			if !i.pureInstr(in, true) {
				return false
			}
		}
	}
	return n <= maxRegionInstrs
}

func (i *interpreter) pureInstr(in ssa.Instruction, allowReturn bool) bool {
	switch in := in.(type) {
	case *ssa.DebugRef, *ssa.Phi, *ssa.If, *ssa.Jump, *ssa.BinOp, *ssa.Convert, *ssa.ChangeType,
		*ssa.Extract, *ssa.Index, *ssa.IndexAddr, *ssa.Field, *ssa.FieldAddr:
		return true
	case *ssa.UnOp:
		return in.Op != token.ARROW
	case *ssa.Return:
		return allowReturn
	case *ssa.Call:
		if in.Call.IsInvoke() {
			return true // callee purity is checked when the call is made (regionAbort otherwise)
		}
		switch f := in.Call.Value.(type) {
		case *ssa.Builtin:
			switch f.Name() {
			case "len", "cap", "min", "max":
				return true
			}
			return false
		case *ssa.Function:
			return i.pureFn(f)
		}
		return true // closure / function value: checked dynamically
	}
	return false
}

func (i *interpreter) regionOf(fr *frame, instr *ssa.If) *regionInfo {
	if r, ok := i.regions[instr]; ok {
		return r
	}
	r := i.computeRegion(fr.fn, instr)
	i.regions[instr] = r
	return r
}

func (i *interpreter) computeRegion(fn *ssa.Function, instr *ssa.If) *regionInfo {
	if fn.Recover != nil {
		// functions with defers/recover: keep it simple, only convert regions with a join
	}
	B := instr.Block()
	J := i.pdomOf(fn).ipdom[B]
	inReg := map[*ssa.BasicBlock]bool{}
	var order []*ssa.BasicBlock
	color := map[*ssa.BasicBlock]int8{}
	ok := true
	var dfs func(b *ssa.BasicBlock)
	dfs = func(b *ssa.BasicBlock) {
		if !ok || b == J {
			return
		}
		if b == B {
			ok = false // loop back to the branch block
			return
		}
		switch color[b] {
		case 1:
			ok = false
			return
		case 2:
			return
		}
		color[b] = 1
		inReg[b] = true
		if len(inReg) > maxRegionBlocks {
			ok = false
			return
		}
		for _, s := range b.Succs {
			dfs(s)
		}
		color[b] = 2
		order = append(order, b) // postorder
	}
	for _, s := range B.Succs {
		dfs(s)
	}
	if !ok {
		return nil
	}
	// reverse postorder = topological
	for l, r := 0, len(order)-1; l < r; l, r = l+1, r-1 {
		order[l], order[r] = order[r], order[l]
	}
	n := 0
	returns := false
	for _, b := range order {
		for _, p := range b.Preds {
			if p != B && !inReg[p] {
				return nil
			}
		}
		for _, in := range b.Instrs {
			n++
			if _, isRet := in.(*ssa.Return); isRet {
				returns = true
			}
			if phi, isPhi := in.(*ssa.Phi); isPhi && !scalarType(phi.Type()) {
				return nil
			}
			if !i.pureInstr(in, J == nil) {
				return nil
			}
		}
		if len(b.Succs) == 0 {
			if _, isRet := b.Instrs[len(b.Instrs)-1].(*ssa.Return); !isRet {
				return nil // panic exit
			}
		}
	}
	if n > maxRegionInstrs {
		return nil
	}
	if J == nil {
		if !returns {
			return nil
		}
		res := fn.Signature.Results()
		for k := 0; k < res.Len(); k++ {
			if !scalarType(res.At(k).Type()) {
				return nil
			}
		}
	} else {
		for _, in := range J.Instrs {
			phi, isPhi := in.(*ssa.Phi)
			if !isPhi {
				break
			}
			if !scalarType(phi.Type()) {
				// allowed only if all region edges carry the same SSA value
				var first ssa.Value
				same := true
				for k, p := range J.Preds {
					if p == B || inReg[p] {
						if first == nil {
							first = phi.Edges[k]
						} else if first != phi.Edges[k] {
							same = false
						}
					}
				}
				if !same {
					return nil
				}
			}
		}
	}
	return &regionInfo{join: J, order: order, inReg: inReg, returns: J == nil}
}

// ifConvert tries to evaluate both arms of the symbolic branch `instr` as one region.
func (fr *frame) ifConvert(instr *ssa.If, cond *sym.Term) (k continuation, done bool) {
	i := fr.i
	if i.noIfConv {
		return 0, false
	}
	reg := i.regionOf(fr, instr)
	if reg == nil {
		return 0, false
	}
	c := i.ctx
	B := fr.block
	outer := fr.guard
	savedPrev := fr.prevBlock
	defer func() {
		if p := recover(); p != nil {
			switch p.(type) {
			case runtimeErr, targetPanic:
				// a trap in one arm of a region that is being evaluated speculatively: give up
				// the conversion and branch normally (the trap is then hit, or not, on its own path)
				p = regionAbort{"trap in speculated arm"}
			}
			if _, ok := p.(regionAbort); ok && outer == nil {
				fr.block, fr.prevBlock, fr.guard = B, savedPrev, outer
				k, done = 0, false
				i.ex.stats.RegionAborts++
				i.regions[instr] = nil // do not try again
				return
			}
			fr.guard = outer
			panic(p)
		}
	}()
	type edge struct{ from, to *ssa.BasicBlock }
	eg := map[edge]*sym.Term{}
	eg[edge{B, B.Succs[0]}] = cond
	if B.Succs[0] == B.Succs[1] {
		eg[edge{B, B.Succs[0]}] = c.True
	} else {
		eg[edge{B, B.Succs[1]}] = c.Not(cond)
	}
	guardOf := func(b *ssa.BasicBlock) *sym.Term {
		g := c.False
		seen := map[*ssa.BasicBlock]bool{}
		for _, p := range b.Preds {
			if seen[p] {
				continue
			}
			seen[p] = true
			if t, ok := eg[edge{p, b}]; ok {
				g = c.Or(g, t)
			}
		}
		return g
	}
	mergePhi := func(b *ssa.BasicBlock, phi *ssa.Phi) value {
		var res value
		have := false
		seen := map[*ssa.BasicBlock]bool{}
		for k := len(b.Preds) - 1; k >= 0; k-- {
			p := b.Preds[k]
			t, ok := eg[edge{p, b}]
			if !ok || t.IsFalse() || seen[p] {
				continue
			}
			seen[p] = true
			v := fr.get(phi.Edges[k])
			if !have {
				res, have = v, true
				continue
			}
			m, ok := i.iteVal(t, v, res)
			if !ok {
				panic(regionAbort{"phi merge"})
			}
			res = m
		}
		if !have {
			panic(regionAbort{"phi without live edge"})
		}
		return res
	}
	type ret struct {
		g *sym.Term
		v value
	}
	var rets []ret
	for _, b := range reg.order {
		g := guardOf(b)
		if g.IsFalse() {
			continue
		}
		full := g
		if outer != nil {
			full = c.And(outer, g)
		}
		fr.guard = full
		fr.block = b
		// phis (parallel assignment)
		var phis []*ssa.Phi
		var vals []value
		idx := 0
		for ; idx < len(b.Instrs); idx++ {
			phi, ok := b.Instrs[idx].(*ssa.Phi)
			if !ok {
				break
			}
			phis = append(phis, phi)
			vals = append(vals, mergePhi(b, phi))
		}
		for k, phi := range phis {
			fr.env[phi] = vals[k]
		}
		for _, in := range b.Instrs[idx:] {
			i.ex.instrs++
			switch in := in.(type) {
			case *ssa.If:
				switch cv := fr.get(in.Cond).(type) {
				case bool:
					if cv {
						eg[edge{b, b.Succs[0]}] = g
					} else {
						eg[edge{b, b.Succs[1]}] = g
					}
				case sv:
					if b.Succs[0] == b.Succs[1] {
						eg[edge{b, b.Succs[0]}] = g
					} else {
						eg[edge{b, b.Succs[0]}] = c.And(g, cv.t)
						eg[edge{b, b.Succs[1]}] = c.And(g, c.Not(cv.t))
					}
				}
			case *ssa.Jump:
				eg[edge{b, b.Succs[0]}] = g
			case *ssa.Return:
				var v value
				switch len(in.Results) {
				case 0:
				case 1:
					v = fr.get(in.Results[0])
				default:
					var res []value
					for _, r := range in.Results {
						res = append(res, fr.get(r))
					}
					v = tuple(res)
				}
				rets = append(rets, ret{g, v})
			default:
				visitInstr(fr, in)
			}
		}
	}
	fr.guard = outer
	i.ex.stats.Regions++
	if reg.join != nil {
		J := reg.join
		var phis []*ssa.Phi
		var vals []value
		for _, in := range J.Instrs {
			phi, ok := in.(*ssa.Phi)
			if !ok {
				break
			}
			phis = append(phis, phi)
			vals = append(vals, mergePhi(J, phi))
		}
		for k, phi := range phis {
			fr.env[phi] = vals[k]
		}
		// choose some region predecessor as prevBlock (phis already done)
		fr.prevBlock = B
		for _, p := range J.Preds {
			if _, ok := eg[edge{p, J}]; ok {
				fr.prevBlock = p
				break
			}
		}
		fr.block = J
		fr.skipPhis = true
		return kJump, true
	}
	// merged return
	if len(rets) == 0 {
		panic(regionAbort{"no return"})
	}
	res := rets[len(rets)-1].v
	for k := len(rets) - 2; k >= 0; k-- {
		r := rets[k]
		if tup, ok := r.v.(tuple); ok {
			rt := res.(tuple)
			nt := make(tuple, len(tup))
			for j := range tup {
				m, ok := i.iteVal(r.g, tup[j], rt[j])
				if !ok {
					panic(regionAbort{"return merge"})
				}
				nt[j] = m
			}
			res = nt
			continue
		}
		if r.v == nil {
			continue
		}
		m, ok := i.iteVal(r.g, r.v, res)
		if !ok {
			panic(regionAbort{"return merge"})
		}
		res = m
	}
	fr.result = res
	fr.block = nil
	return kReturn, true
}

var _ = types.Bool
