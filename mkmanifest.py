#!/usr/bin/env python3
"""Regenerates MANIFEST.json from checks.py (claimed checks) and NA below."""
import json, os, sys
sys.path.insert(0, os.path.dirname(os.path.abspath(__file__)))
import checks

ALL = ["C%02d" % i for i in range(1, 21)]
NA = {
}
NOT_YET = "check not built yet in this session (solver-based harness planned in DESIGN.md §4); not claimed"

m = {
    "version": 1,
    "setup_cmd": "cd /verif/engine && GOFLAGS=-mod=mod GOPROXY=off GOSUMDB=off GOTOOLCHAIN=local go build -o /verif/bin/gosym ./cmd/gosym",
    "hooks": {"guard": "verif", "enable": "none needed: harnesses, models and replay tests are injected with go/packages Overlay and `go test -overlay`; /repo carries no hook commits",
              "baseline_off_cmd": "cd /repo && go build ./... && go test -vet=off -count=1 ./...", "source_commits": [], "add_only": True},
    "engines": [{"name": "gosym", "path": "engine/", "serves_properties": sorted(checks.CHECKS),
                 "kind_free_text": "own bounded symbolic executor for Go SSA (go/ssa from /repo's current tree) with z3 as decision procedure; native replay of every witness/counterexample"}],
    "checks": [],
    "not_applicable": [],
    "notes": "All checks: exit 0 held within the stated bounds, 1 + VIOLATION line (natively reproduced counterexample), 2 + UNDECIDED line (solver unknown / unsupported construct / engine-native mismatch).",
}
for pid in ALL:
    if pid in checks.CHECKS:
        c = checks.CHECKS[pid]
        m["checks"].append({
            "property_id": pid,
            "quick_cmd": "python3 /verif/vcheck.py %s quick" % pid,
            "thorough_cmd": "python3 /verif/vcheck.py %s thorough" % pid,
            "evidence_file": "/verif/evidence/%s.json" % pid,
            "replay_cmd_template": "python3 /verif/vcheck.py replay {path}",
            "engine": "gosym",
            "level_claimed": {"category": "model_checking",
                              "text": c.get("level_text", "bounded symbolic model checking of the real code: every path of the harness within the stated bounds is explored and every assertion on it is decided by z3 for all values of the symbolic inputs; nothing is claimed outside the bounds"),
                              "design_ref": "DESIGN.md §4 " + pid},
            "level_note": c.get("level_note", "trusted: gosym's implementation of Go SSA semantics (validated each run by native replay of solver witnesses), z3 4.8.12, the harness oracle; bounds as listed in evidence.coverage.bounds"),
            "technique": c.get("technique", "bounded symbolic execution of Go SSA + SMT (z3), native replay"),
        })
    else:
        m["not_applicable"].append({"property_id": pid, "reason": NA.get(pid, NOT_YET)})
json.dump(m, open(os.path.join(os.path.dirname(os.path.abspath(__file__)), "MANIFEST.json"), "w"), indent=1)
print("claimed:", sorted(checks.CHECKS), "na:", [x["property_id"] for x in m["not_applicable"]])
