"""Per-property check definitions: harness instantiations (shapes) per tier."""

CHECKS = {}


def c17_jobs(tier):
    jobs = []
    sl = 2 if tier == "quick" else 4
    for a in range(7):
        jobs.append({"pkgdir": "alphabet", "func": "VerifC17_Builtin", "params": {"alphabet": a, "slice": sl}})
    return jobs


CHECKS["C17"] = {
    "jobs": c17_jobs,
    "functions": ["alphabet.newAlphabet", "alphabet.NewPairing", "alphabet.NewComplementor", "(*alpha).IsValid/IndexOf/Letter/AllValid/LetterIndex/ValidLetters/Letters",
                  "(*Pairing).Complement/ComplementTable", "strings.ToLower/ToUpper/IndexFunc (executed, not modelled)"],
    "explanation": "bounded symbolic execution of the real alphabet code; the letter is one symbolic byte covering all 256 values in a single query per law",
    "outside": "definition strings longer than the stated length; non-ASCII definitions beyond the concrete samples",
}


def _al(func, which, n, m, **kw):
    p = {"aligner": which, "n": n, "m": m, "k": 2, "qual": 0, "smax": 4, "gmax": 4, "split": 0}
    p.update(kw)
    return {"pkgdir": "align", "func": func, "math": True, "params": p}


def c08_jobs(tier):
    jobs = []
    if tier == "quick":
        lin = {0: [(2, 2), (3, 2), (2, 3), (3, 3)], 1: [(2, 2), (3, 2), (2, 3)], 2: [(2, 2), (3, 2), (2, 3)]}
        aff = [(2, 2), (2, 3)]
    else:
        lin = {0: [(2, 2), (3, 2), (2, 3), (3, 3), (4, 3), (3, 4)], 1: [(2, 2), (3, 2), (2, 3), (3, 3)], 2: [(2, 2), (3, 2), (2, 3), (3, 3)]}
        aff = [(2, 2), (2, 3), (3, 2), (3, 3)]
    for which in (0, 1, 2):
        for (n, m) in lin[which]:
            jobs.append(_al("VerifC08_Optimal", which, n, m))
        jobs.append(_al("VerifC08_Optimal", which, 2, 2, qual=1))
    for which in (3, 4, 5):
        for (n, m) in aff:
            jobs.append(_al("VerifC08_Optimal", which, n, m))
        jobs.append(_al("VerifC08_Optimal", which, 2, 2, qual=1))
    if tier == "thorough":
        jobs.append(_al("VerifC08_Optimal", 0, 3, 3, k=3))
        jobs.append(_al("VerifC08_Optimal", 0, 4, 4, split=1))
    return jobs


def c09_jobs(tier):
    jobs = []
    shapes = [(2, 2), (3, 2), (2, 3)] if tier == "quick" else [(2, 2), (3, 2), (2, 3), (3, 3)]
    for which in range(6):
        sh = shapes if which < 3 else (shapes[:2] if tier == "quick" else shapes[:3])
        for (n, m) in sh:
            jobs.append(_al("VerifC09_WellFormed", which, n, m))
        for kind in range(6):
            jobs.append(_al("VerifC09_IllTyped", which, 2, 2, kind=kind))
    return jobs


CHECKS["C09"] = {
    "jobs": c09_jobs,
    "functions": ["align.{NW,SW,Fitted,NWAffine,SWAffine,FittedAffine}.Align", "the twelve align*Letters/QLetters kernels", "align.Format", "featPair"],
    "explanation": "same symbolic setting as C08; per trace-back path the pairs are checked for abutment, block/gap shape, bounds, recomputed per-pair score, Letters==QLetters, Format; ill-typed inputs (one arbitrary byte, wrong alphabets/types/matrices) must give errors, not panics",
    "outside": "as C08",
}


CHECKS["C08"] = {
    "jobs": c08_jobs,
    "functions": ["align.{NW,SW,Fitted,NWAffine,SWAffine,FittedAffine}.Align", "the twelve align*Letters/QLetters kernels", "max2/max3/add", "featPair"],
    "explanation": "symbolic letters, fully symbolic scoring matrix; oracle = explicit enumeration of all competing alignments; max-plus DP in SMT Int with overflow obligations",
    "outside": "sequences longer than the stated n x m, alphabets with more than k letters, scores outside [-4,4]",
}


def c20_jobs(tier):
    jobs = []
    ks = [1, 2, 3] if tier == "quick" else [1, 2, 3, 4]
    for k in ks:
        jobs.append({"pkgdir": "feat/gene", "func": "VerifC20_Tiling", "math": True,
                     "params": {"k": k, "maxoff": 8 if k < 4 else 9, "maxlen": 4 if k < 4 else 3}})
    for k in ([1, 2] if tier == "quick" else [1, 2, 3]):
        for spare in (0, 1, 2):
            jobs.append({"pkgdir": "feat/gene", "func": "VerifC20_Atomic", "math": True, "params": {"k": k, "spare": spare}})
    jobs.append({"pkgdir": "feat", "func": "VerifC20_OneZero", "params": {}})
    return jobs


CHECKS["C20"] = {
    "jobs": c20_jobs,
    "functions": ["gene.Exons.{Add,Introns,SplicedLen,Start,End,Location,Less,Swap}", "gene.buildExonsFor", "(*CodingTranscript).{SetExons,UTR5,CDS,UTR3,...}", "(*NonCodingTranscript).SetExons", "(*Gene).SetFeatures",
                  "feat.{BasePositionOf,PositionWithin,BaseOrientationOf,OrientationWithin,OneToZero,ZeroToOne}", "sort.Sort (executed)"],
    "explanation": "symbolic exon offsets/lengths in arbitrary order (all sort orders explored), symbolic CDS bounds, offsets and orientations at transcript and gene level; acceptance is compared with an independent specification; capacity histories built with make(Exons,0,k+spare)",
    "outside": "more than 4 exons, offsets beyond the stated range, nesting deeper than exon/transcript/gene/chromosome, the two extreme int values for 1-/0-based conversion",
}
