package gff

// C02 (write-then-read), C03 (reader totality), C04 (terminators) for GFF.

import (
	"bytes"
	"io"

	"github.com/biogo/biogo/feat"
)

func verifRead(r *Reader) (f feat.Feature, err error, panicked bool) {
	defer func() {
		if p := recover(); p != nil {
			if _, ok := p.(verifAssumeFailed); ok {
				panic(p)
			}
			panicked = true
		}
	}()
	f, err = r.Read()
	return
}

// VerifC03_Gff: every byte symbolic.
func VerifC03_Gff() {
	n := verifParam("n")
	data := make([]byte, n)
	lines := 0
	for i := range data {
		data[i] = verifByte("b"+string(rune('a'+i)), 0, 127)
		if data[i] == '\n' {
			lines++
		}
	}
	r := NewReader(bytes.NewReader(data))
	calls := 0
	ended := false
	for calls < n+3 {
		f, err, panicked := verifRead(r)
		calls++
		verifAssert(!panicked, "arbitrary-read-never-panics")
		if panicked {
			return
		}
		verifAssert(f != nil || err != nil, "arbitrary-record-or-error")
		if err != nil {
			ended = true
			break
		}
	}
	verifAssert(ended, "arbitrary-reaches-eof-or-error")
	verifAssert(calls <= lines+2, "arbitrary-ends-within-one-call-per-line-plus-one")
	verifObserve("c03gff", n, calls, lines)
	verifReach("end")
}

var verifNumbers = []string{"0", "-1", "7", "9223372036854775807", "9223372036854775808", "0x10", "1_0", "x", ""}

var verifMetaLines = []string{"##gff-version", "##gff-version 2", "##gff-version x", "##sequence-region a 1", "##sequence-region a 0 5",
	"##sequence-region a 1 5", "##DNA", "##DNA a", "##source-version", "##date", "##Type", "##Type DNA a", "##", "##unknown x", "#", "# comment"}

// VerifC03_GffStructured: a valid feature line with symbolic text holes and ONE symbolic
// mutation, or one of a list of (in)complete metadata lines.
func VerifC03_GffStructured() {
	var text []byte
	mustErr := false
	if verifParam("meta") == 1 {
		k := verifChoice("metaline", len(verifMetaLines))
		text = append([]byte(verifMetaLines[k]), '\n')
		switch verifMetaLines[k] {
		case "##gff-version", "##gff-version x", "##sequence-region a 1", "##sequence-region a 0 5", "##DNA", "##source-version", "##date", "##Type":
			mustErr = true // incomplete metadata line, or a sequence-region start of zero
		}
	} else {
		cols := [][]byte{
			{verifByte("seqname", 0x21, 0x7e)}, {verifByte("source", 0x21, 0x7e)}, {verifByte("feature", 0x21, 0x7e)},
			[]byte("10"), []byte("20"), []byte("."), {verifByte("strand", 0x21, 0x7e)}, {verifByte("frame", 0x21, 0x7e)},
			[]byte("tag value"), []byte("comment"),
		}
		ncols := 8 + verifChoice("extra", 3)
		use := append([][]byte(nil), cols[:ncols]...)
		mutation := verifChoice("mutation", 7)
		switch mutation {
		case 1:
			k := verifChoice("delcol", ncols)
			use = append(append([][]byte(nil), use[:k]...), use[k+1:]...)
			if len(use) < 8 {
				mustErr = true // a mandatory column is missing
			}
		case 2:
			k := verifChoice("dupcol", ncols)
			use = append(append(append([][]byte(nil), use[:k+1]...), use[k]), use[k+1:]...)
		case 3:
			use[verifChoice("emptycol", ncols)] = nil
		case 4:
			k := 3 + verifChoice("numcol", 2)
			v := verifNumbers[verifChoice("numval", len(verifNumbers))]
			use[k] = []byte(v)
			if v == "x" || v == "" || v == "9223372036854775808" || (k == 3 && v == "0") {
				mustErr = true // non-numeric coordinate, or a GFF start of zero
			}
		case 5:
			use[5] = []byte([]string{"1.5", "x", "1e400", "-0", "Inf"}[verifChoice("score", 5)])
		}
		line := bytes.Join(use, []byte{'\t'})
		if mutation == 6 {
			line = line[:verifChoice("cut", len(line))]
		}
		text = append(append([]byte(nil), line...), '\n')
	}
	r := NewReader(bytes.NewReader(text))
	f, rerr, panicked := verifRead(r)
	verifAssert(!panicked, "structured-read-never-panics")
	if panicked {
		return
	}
	verifAssert(f != nil || rerr != nil, "structured-record-or-error")
	if mustErr {
		verifAssert(rerr != nil, "structurally-invalid-line-is-an-error")
	}
	if rerr == nil {
		_, rerr2, panicked2 := verifRead(r)
		verifAssert(!panicked2 && rerr2 == io.EOF, "structured-then-eof")
	}
	verifObserve("c03gffs", len(text), rerr != nil)
	verifReach("end")
}
