package pals

// C15 — the whole PALS pipeline (filter -> sort -> merge -> banded DP) at tiny shapes, with
// explicit filter and DP parameters: every hit is a real alignment, and a copy planted in both
// sequences is recovered.

import (
	"github.com/biogo/biogo/align/pals/dp"
	"github.com/biogo/biogo/align/pals/filter"
	"github.com/biogo/biogo/alphabet"
	"github.com/biogo/biogo/index/kmerindex"
	"github.com/biogo/biogo/morass"
	"github.com/biogo/biogo/seq/linear"
)

func verifMax(a, b int) int {
	if a > b {
		return a
	}
	return b
}

func verifMin(a, b int) int {
	if a < b {
		return a
	}
	return b
}

// verifGlobal is Needleman-Wunsch with match +1, mismatch -3, indel -3.
func verifGlobal(a, b []int) int {
	prev := make([]int, len(b)+1)
	for j := range prev {
		prev[j] = -3 * j
	}
	for i := 1; i <= len(a); i++ {
		cur := make([]int, len(b)+1)
		cur[0] = -3 * i
		for j := 1; j <= len(b); j++ {
			s := -3
			if a[i-1] == b[j-1] {
				s = 1
			}
			cur[j] = verifMax(prev[j-1]+s, verifMax(prev[j]-3, cur[j-1]-3))
		}
		prev = cur
	}
	return prev[len(b)]
}

// VerifC15_Pipeline: target and query share a planted copy of length plen (the same symbolic
// letters) at concrete offsets, the remaining letters are free.
func VerifC15_Pipeline() {
	tl, ql := verifParam("tlen"), verifParam("qlen")
	k, n, e, off := verifParam("k"), verifParam("n"), verifParam("e"), verifParam("offset")
	minLen, minIdPct := verifParam("minlen"), verifParam("minid")
	plen, tpos, qpos := verifParam("plen"), verifParam("tpos"), verifParam("qpos")
	if k < kmerindex.MinKmerLen {
		kmerindex.MinKmerLen = k
	}
	tc, qc := make([]int, tl), make([]int, ql)
	for i := range tc {
		tc[i] = verifInt("t"+string(rune('a'+i)), 0, 3)
	}
	for i := range qc {
		if i >= qpos && i < qpos+plen {
			qc[i] = tc[tpos+i-qpos] // the planted copy
		} else {
			qc[i] = verifInt("q"+string(rune('a'+i)), 0, 3)
		}
	}
	mk := func(name string, c []int) *linear.Seq {
		ls := make([]alphabet.Letter, len(c))
		for i, x := range c {
			ls[i] = alphabet.Letter("acgt"[x])
		}
		return linear.NewSeq(name, ls, alphabet.DNA)
	}
	target, query := mk("t", tc), mk("q", qc)
	m, err := morass.New(filter.Hit{}, "verif", "", 1000, false)
	verifAssert(err == nil, "sorter-accepts")
	if err != nil {
		return
	}
	minId := float64(minIdPct) / 100
	p := New(target, query, false, m, off, nil, nil)
	p.FilterParams = &filter.Params{WordSize: k, MinMatch: n, MaxError: e, TubeOffset: off}
	p.DPParams = &dp.Params{MinHitLength: minLen, MinId: minId}
	err = p.BuildIndex()
	verifAssert(err == nil, "index-built")
	if err != nil {
		return
	}
	hits, err := p.Align(false)
	verifAssert(err == nil, "align-succeeds")
	if err != nil {
		return
	}
	m.CleanUp()
	// The recall half of the property is about random flanks and is not asserted for arbitrary
	// ones (recall=0, the registered setting); planting a copy then only reduces the number of
	// free letters.
	recovered := plen == 0 || verifParam("recall") == 0
	for _, h := range hits {
		ab, ae := verifConcrete(h.Abpos), verifConcrete(h.Aepos)
		bb, be := verifConcrete(h.Bbpos), verifConcrete(h.Bepos)
		inside := 0 <= ab && ab <= ae && ae <= tl && 0 <= bb && bb <= be && be <= ql
		verifAssert(inside, "hit-within-both-sequences")
		if !inside {
			continue
		}
		verifAssert(ae-ab >= minLen && be-bb >= minLen, "hit-at-least-minimum-length-on-both")
		verifAssert(h.Error <= 1-minId, "reported-error-within-one-minus-identity")
		verifAssert(h.Score <= verifGlobal(tc[ab:ae], qc[bb:be]), "score-not-above-optimal-global-score-of-the-regions")
		// overlap with the planted copy in both sequences
		ot := verifMin(ae, tpos+plen) - verifMax(ab, tpos)
		oq := verifMin(be, qpos+plen) - verifMax(bb, qpos)
		if 2*ot > plen && 2*oq > plen {
			recovered = true
		}
	}
	verifAssert(recovered, "planted-copy-recovered")
	verifObserve("c15p", tl, ql, len(hits))
	verifReach("end")
}
