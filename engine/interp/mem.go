package interp

// Memory access with symbolic indices, symbolic strings, concretisation, and the
// frame-level wrappers around binop/unop/conv.

import (
	"fmt"
	"go/token"
	"go/types"
	"unicode/utf8"

	"golang.org/x/tools/go/ssa"

	"verif/engine/sym"
)

func mustDeref(t types.Type) types.Type {
	if p, ok := t.Underlying().(*types.Pointer); ok {
		return p.Elem()
	}
	panic(fmt.Sprintf("mustDeref: %s is not a pointer", t))
}

// symPtr is the address of cells[idx] for a symbolic idx (scalar elements only).
type symPtr struct {
	cells  []value
	idx    *sym.Term
	lo, hi int // feasible index range (inclusive), within bounds
}

// sliceData is the result of unsafe.SliceData / unsafe.StringData.
type sliceData struct{ cells []value }

// symstr is a string with at least one symbolic byte; elements are uint8 or sv.
type symstr []value

func (fr *frame) enterBlock() {
	e := fr.i.ex
	if e == nil || fr.i.inInit {
		return
	}
	if e.lim.MaxInstrs > 0 && e.instrs > e.lim.MaxInstrs {
		panic(pathEnd{kind: "budget", msg: fmt.Sprintf("instruction budget %d exhausted in %s", e.lim.MaxInstrs, fr.fn)})
	}
	if e.lim.Unwind > 0 {
		if fr.visits == nil {
			fr.visits = map[*ssa.BasicBlock]int{}
		}
		fr.visits[fr.block]++
		if fr.visits[fr.block] > e.lim.Unwind {
			panic(pathEnd{kind: "unwind", msg: fmt.Sprintf("block %s of %s entered more than %d times", fr.block, fr.fn, e.lim.Unwind)})
		}
	}
}

// conc makes v concrete (case-splitting over its feasible values).
func (fr *frame) conc(v value, what string) value {
	s, ok := v.(sv)
	if !ok {
		return v
	}
	u := fr.choose(s.t, what+" in "+fr.fn.String())
	if s.t.Sort == sym.SBV {
		if kindSigned(s.k) {
			return hostOf(s.k, uint64(fr.i.ctx.BV(u, s.t.W).SignedVal()))
		}
	}
	return hostOf(s.k, u)
}

func scalarType(t types.Type) bool {
	b, ok := t.Underlying().(*types.Basic)
	if !ok {
		return false
	}
	return b.Info()&(types.IsInteger|types.IsBoolean) != 0
}

func (fr *frame) inRange(t *sym.Term, n int) *sym.Term {
	c := fr.i.ctx
	if t.Sort == sym.SInt {
		return c.And(c.Le(c.Int(0), t), c.Lt(t, c.Int(int64(n))))
	}
	if t.W < 64 && uint64(n) > (uint64(1)<<t.W)-1 {
		return c.True
	}
	return c.Ult(t, c.BV(uint64(n), t.W))
}

func (fr *frame) idxRange(t *sym.Term, n int) (lo, hi int) {
	lo, hi = 0, n-1
	if t.Sort == sym.SInt {
		if t.Lo > 0 {
			lo = int(min64i(t.Lo, int64(n)))
		}
		if t.Hi < int64(hi) {
			hi = int(t.Hi)
		}
	} else {
		if t.ULo > 0 && t.ULo < uint64(n) {
			lo = int(t.ULo)
		}
		if t.UHi < uint64(hi) {
			hi = int(t.UHi)
		}
	}
	return
}

func min64i(a, b int64) int64 {
	if a < b {
		return a
	}
	return b
}

func (fr *frame) indexAddr(cells []value, idx value, elem types.Type) value {
	s, ok := idx.(sv)
	if !ok {
		j := asInt64(idx)
		if j < 0 || j >= int64(len(cells)) {
			panic(runtimeError(fmt.Sprintf("index out of range [%d] with length %d", j, len(cells))))
		}
		return &cells[j]
	}
	in := fr.inRange(s.t, len(cells))
	if !fr.guardedCheck(in) {
		panic(runtimeError(fmt.Sprintf("index out of range [sym] with length %d", len(cells))))
	}
	if scalarType(elem) {
		lo, hi := fr.idxRange(s.t, len(cells))
		if lo == hi {
			return &cells[lo]
		}
		return symPtr{cells: cells, idx: s.t, lo: lo, hi: hi}
	}
	j := asInt64(fr.conc(idx, "index"))
	return &cells[j]
}

// guardedCheck decides a safety condition: true if it holds on this path. Outside
// an if-converted region it is an ordinary branch (the failing side is explored
// too). Inside a region the failing side must be infeasible under the guard.
func (fr *frame) guardedCheck(ok *sym.Term) bool {
	if ok.IsTrue() {
		return true
	}
	if fr.guard == nil {
		return fr.branch(ok)
	}
	if ok.IsFalse() {
		panic(unsupported("trap inside if-converted region"))
	}
	fr.i.obligation(fr, fr.i.ctx.Not(ok), "trap inside if-converted region")
	return true
}

func (fr *frame) loadSym(p symPtr) value {
	c := fr.i.ctx
	if sym.IsConstTree(p.idx) {
		// index is an ite tree over constants: map the leaves through the table
		var k types.BasicKind
		okAll := true
		r := c.MapLeaves(p.idx, func(leaf *sym.Term) *sym.Term {
			j := int(leaf.Val)
			if p.idx.Sort == sym.SInt {
				j = int(leaf.Int64())
			}
			if j < 0 || j >= len(p.cells) {
				j = p.lo // infeasible leaf (bounds were checked): any in-range cell
			}
			t, kk := fr.i.term(p.cells[j])
			k = kk
			return t
		})
		if okAll {
			return fr.i.mkval(r, k)
		}
	}
	// balanced search tree on the index: depth log(n), equal neighbours collapse
	var build func(lo, hi int) value
	build = func(lo, hi int) value {
		if lo == hi {
			return p.cells[lo]
		}
		mid := (lo + hi + 1) / 2
		l := build(lo, mid-1)
		r := build(mid, hi)
		var cond *sym.Term
		if p.idx.Sort == sym.SInt {
			cond = c.Lt(p.idx, c.Int(int64(mid)))
		} else {
			cond = c.Ult(p.idx, c.BV(uint64(mid), p.idx.W))
		}
		m, ok := fr.i.iteVal(cond, l, r)
		if !ok {
			panic(unsupported("symbolic-index load of non-scalar"))
		}
		return m
	}
	return build(p.lo, p.hi)
}

func sameScalar(a, b value) bool { return false }

func (fr *frame) idxConst(like *sym.Term, j int) *sym.Term {
	if like.Sort == sym.SInt {
		return fr.i.ctx.Int(int64(j))
	}
	return fr.i.ctx.BV(uint64(j), like.W)
}

func (fr *frame) storeSym(p symPtr, v value) {
	c := fr.i.ctx
	for j := p.lo; j <= p.hi; j++ {
		cond := c.Eq(p.idx, fr.idxConst(p.idx, j))
		if fr.guard != nil {
			cond = c.And(fr.guard, cond)
		}
		m, ok := fr.i.iteVal(cond, v, p.cells[j])
		if !ok {
			panic(unsupported("symbolic-index store of non-scalar"))
		}
		p.cells[j] = m
	}
}

func (fr *frame) loadPtr(T types.Type, addr value) value {
	switch a := addr.(type) {
	case *value:
		if a == nil {
			panic(runtimeError("invalid memory address or nil pointer dereference"))
		}
		if _, isBad := (*a).(bad); isBad {
			panic(unsupported("read of poisoned value (unsupported initialiser)"))
		}
		fr.raceAccess(T, a, false)
		return load(T, a)
	case symPtr:
		return fr.loadSym(a)
	}
	panic(fmt.Sprintf("loadPtr: %T", addr))
}

func (fr *frame) storePtr(T types.Type, addr value, v value) {
	switch a := addr.(type) {
	case *value:
		if a == nil {
			panic(runtimeError("invalid memory address or nil pointer dereference"))
		}
		if fr.guard != nil {
			panic(unsupported("store inside if-converted region"))
		}
		fr.raceAccess(T, a, true)
		store(T, a, v)
		return
	case symPtr:
		fr.storeSym(a, v)
		return
	}
	panic(fmt.Sprintf("storePtr: %T", addr))
}

// indexVal implements x[idx] for array values and strings.
func (fr *frame) indexVal(x value, idx value) value {
	var cells []value
	switch x := x.(type) {
	case array:
		cells = x
	case symstr:
		cells = x
	case string:
		s, ok := idx.(sv)
		if !ok {
			j := asInt64(idx)
			if j < 0 || j >= int64(len(x)) {
				panic(runtimeError(fmt.Sprintf("index out of range [%d] with length %d", j, len(x))))
			}
			return x[j]
		}
		_ = s
		cells = make([]value, len(x))
		for j := 0; j < len(x); j++ {
			cells[j] = x[j]
		}
	default:
		panic(fmt.Sprintf("unexpected x type in Index: %T", x))
	}
	s, ok := idx.(sv)
	if !ok {
		j := asInt64(idx)
		if j < 0 || j >= int64(len(cells)) {
			panic(runtimeError(fmt.Sprintf("index out of range [%d] with length %d", j, len(cells))))
		}
		return cells[j]
	}
	in := fr.inRange(s.t, len(cells))
	if !fr.guardedCheck(in) {
		panic(runtimeError(fmt.Sprintf("index out of range [sym] with length %d", len(cells))))
	}
	lo, hi := fr.idxRange(s.t, len(cells))
	allScalar := true
	for j := lo; j <= hi; j++ {
		if _, ok := hostKind(cells[j]); !ok && !isSym(cells[j]) {
			allScalar = false
			break
		}
	}
	if allScalar {
		return fr.loadSym(symPtr{cells: cells, idx: s.t, lo: lo, hi: hi})
	}
	j := asInt64(fr.conc(idx, "index"))
	return cells[j]
}

// ---------------------------------------------------------------------------
// frame-level operators

func (fr *frame) unop(instr *ssa.UnOp, x value) value {
	switch instr.Op {
	case token.MUL:
		return fr.loadPtr(mustDeref(instr.X.Type()), x)
	case token.ARROW:
		v, ok := fr.chanRecv(x, instr.X.Type().Underlying().(*types.Chan).Elem())
		if instr.CommaOk {
			return tuple{v, ok}
		}
		return v
	}
	if isSym(x) {
		return fr.i.symUnop(fr, instr.Op, x)
	}
	return unop(instr, x)
}

func isStrVal(v value) bool {
	switch v.(type) {
	case string, symstr:
		return true
	}
	return false
}

func (fr *frame) binop(op token.Token, t types.Type, x, y value) value {
	_, xf := x.(symFloat)
	_, yf := y.(symFloat)
	if xf || yf {
		switch op {
		case token.ADD, token.SUB, token.MUL, token.QUO:
			return symFloat{"opaque"}
		}
		panic(unsupported("comparison of an opaque (symbolic) float"))
	}
	_, xo := x.(opaqueStr)
	_, yo := y.(opaqueStr)
	if xo || yo {
		if op == token.ADD {
			return opaqueStr{}
		}
		panic(unsupported("comparison of a string formatted by the host fmt from symbolic operands (route fmt through the zz_verifmodel model for this job)"))
	}
	if isSym(x) || isSym(y) {
		return fr.i.symBinop(fr, op, x, y)
	}
	_, xs := x.(symstr)
	_, ys := y.(symstr)
	if xs || ys {
		return fr.strBinop(op, x, y)
	}
	if op == token.EQL || op == token.NEQ {
		switch x.(type) {
		case structure, array, iface:
			if containsSym(x) || containsSym(y) {
				r := fr.i.symEquals(fr, t, x, y)
				if op == token.NEQ {
					r = fr.i.ctx.Not(r)
				}
				return fr.i.mkval(r, types.Bool)
			}
		}
	}
	if op == token.QUO || op == token.REM {
		if k, ok := hostKind(y); ok && k != types.Bool && asInt64(y) == 0 {
			panic(runtimeError("integer divide by zero"))
		}
	}
	return binop(op, t, x, y)
}

func (fr *frame) conv(t_dst, t_src types.Type, x value) value {
	switch xv := x.(type) {
	case sv:
		dk := basicKind(t_dst)
		if db, ok := t_dst.Underlying().(*types.Basic); ok {
			switch {
			case db.Info()&types.IsInteger != 0:
				return fr.i.symConvInt(fr, xv, dk)
			case db.Info()&types.IsFloat != 0:
				if fr.i.floatSplit {
					// exact: case-split the integer (few feasible values) and convert concretely
					if fr.guard != nil {
						panic(regionAbort{"int-to-float case split under a guard"})
					}
					return conv(t_dst, t_src, fr.conc(xv, "int-to-float operand"))
				}
				return fr.i.symToFloat(fr, xv, dk)
			case db.Kind() == types.String:
				return fr.runeToString(xv)
			}
		}
		panic(unsupported(fmt.Sprintf("conversion of symbolic %v to %s", xv.k, t_dst)))
	case symstr:
		switch ut := t_dst.Underlying().(type) {
		case *types.Slice:
			if b, ok := ut.Elem().Underlying().(*types.Basic); ok && b.Kind() == types.Byte {
				return []value(append(symstr(nil), xv...))
			}
			if b, ok := ut.Elem().Underlying().(*types.Basic); ok && b.Kind() == types.Int32 {
				// []rune(s): decode through the string iterator (ASCII symbolically)
				it := &symstrIter{fr: fr, s: xv}
				var out []value
				for {
					t := it.next()
					if !t[0].(bool) {
						break
					}
					out = append(out, t[2])
				}
				return out
			}
			panic(unsupported("[]rune(symbolic string)"))
		case *types.Basic:
			if ut.Kind() == types.String {
				return xv
			}
		}
		panic(unsupported(fmt.Sprintf("conversion of symbolic string to %s", t_dst)))
	case symFloat:
		return fr.i.convFloat(fr, xv, t_dst)
	}
	return conv(t_dst, t_src, x)
}

// ---------------------------------------------------------------------------
// symbolic strings

func strCells(v value) []value {
	switch v := v.(type) {
	case symstr:
		return v
	case string:
		c := make([]value, len(v))
		for j := 0; j < len(v); j++ {
			c[j] = v[j]
		}
		return c
	}
	panic(fmt.Sprintf("strCells: %T", v))
}

// normStr returns a host string if all bytes are concrete.
func normStr(cells []value) value {
	b := make([]byte, len(cells))
	for j, c := range cells {
		u, ok := c.(uint8)
		if !ok {
			return symstr(cells)
		}
		b[j] = u
	}
	return string(b)
}

func (i *interpreter) strEq(x, y value) *sym.Term {
	a, b := strCells(x), strCells(y)
	c := i.ctx
	if len(a) != len(b) {
		return c.False
	}
	r := c.True
	for j := range a {
		ta, _ := i.term(a[j])
		tb, _ := i.term(b[j])
		r = c.And(r, c.Eq(ta, tb))
		if r.IsFalse() {
			break
		}
	}
	return r
}

func (i *interpreter) byteLt(a, b *sym.Term) *sym.Term {
	if a.Sort == sym.SInt {
		return i.ctx.Lt(a, b)
	}
	return i.ctx.Ult(a, b)
}

// strLess returns the term for x < y (lexicographic).
func (i *interpreter) strLess(x, y value) *sym.Term {
	a, b := strCells(x), strCells(y)
	c := i.ctx
	n := len(a)
	if len(b) < n {
		n = len(b)
	}
	// from the end: less_k = a[k]<b[k] or (a[k]==b[k] and less_{k+1})
	res := c.Bool(len(a) < len(b))
	for k := n - 1; k >= 0; k-- {
		ta, _ := i.term(a[k])
		tb, _ := i.term(b[k])
		res = c.Or(i.byteLt(ta, tb), c.And(c.Eq(ta, tb), res))
	}
	return res
}

func (fr *frame) strBinop(op token.Token, x, y value) value {
	i := fr.i
	c := i.ctx
	switch op {
	case token.ADD:
		return normStr(append(append([]value(nil), strCells(x)...), strCells(y)...))
	case token.EQL:
		return i.mkval(i.strEq(x, y), types.Bool)
	case token.NEQ:
		return i.mkval(c.Not(i.strEq(x, y)), types.Bool)
	case token.LSS:
		return i.mkval(i.strLess(x, y), types.Bool)
	case token.GTR:
		return i.mkval(i.strLess(y, x), types.Bool)
	case token.LEQ:
		return i.mkval(c.Not(i.strLess(y, x)), types.Bool)
	case token.GEQ:
		return i.mkval(c.Not(i.strLess(x, y)), types.Bool)
	}
	panic(unsupported("string op " + op.String()))
}

type symstrIter struct {
	fr *frame
	s  symstr
	i  int
}

func (it *symstrIter) next() tuple {
	if it.i >= len(it.s) {
		return tuple{false, nil, nil}
	}
	fr := it.fr
	b := it.s[it.i]
	switch b := b.(type) {
	case uint8:
		if b < utf8.RuneSelf {
			it.i++
			return tuple{true, it.i - 1, rune(b)}
		}
		// multi-byte: all continuation bytes must be concrete
		buf := []byte{b}
		for j := it.i + 1; j < len(it.s) && len(buf) < 4; j++ {
			u, ok := it.s[j].(uint8)
			if !ok {
				if !utf8.FullRune(buf) {
					panic(unsupported("range over string: symbolic byte inside a multi-byte sequence"))
				}
				break
			}
			buf = append(buf, u)
		}
		r, n := utf8.DecodeRune(buf)
		k := it.i
		it.i += n
		return tuple{true, k, r}
	case sv:
		c := fr.i.ctx
		var ascii *sym.Term
		if b.t.Sort == sym.SInt {
			ascii = c.Lt(b.t, c.Int(0x80))
		} else {
			ascii = c.Ult(b.t, c.BV(0x80, b.t.W))
		}
		if !fr.branch(ascii) {
			panic(unsupported("range over string: symbolic non-ASCII byte"))
		}
		it.i++
		return tuple{true, it.i - 1, fr.i.symConvInt(fr, b, types.Int32)}
	}
	panic("symstrIter")
}

// goAppend appends with Go's aliasing behaviour (spare capacity is reused).
func goAppend(a, b []value) []value {
	return append(a, b...)
}

func fmtScalar(t *sym.Term, kind int, v uint64) string {
	k := types.BasicKind(kind)
	switch {
	case t.Sort == sym.SBool:
		if v == 1 {
			return "true"
		}
		return "false"
	case t.Sort == sym.SInt:
		return fmt.Sprintf("%d", int64(v))
	case kindSigned(k):
		sh := 64 - uint(t.W)
		return fmt.Sprintf("%d", int64(v<<sh)>>sh)
	}
	return fmt.Sprintf("%d", v)
}

// cloneAgg deep-copies struct and array values (Go value semantics); everything else is shared.
func cloneAgg(v value) value {
	switch v := v.(type) {
	case structure:
		c := make(structure, len(v))
		for i := range v {
			c[i] = cloneAgg(v[i])
		}
		return c
	case array:
		c := make(array, len(v))
		for i := range v {
			c[i] = cloneAgg(v[i])
		}
		return c
	}
	return v
}

// cloneCells returns the cells to be written by copy/append: aggregates are copied so that
// destination and source elements do not share storage.
func cloneCells(src []value) []value {
	agg := false
	for _, v := range src {
		switch v.(type) {
		case structure, array:
			agg = true
		}
		break
	}
	if !agg {
		return src
	}
	out := make([]value, len(src))
	for i, v := range src {
		out[i] = cloneAgg(v)
	}
	return out
}

// runeToString implements string(r) for a symbolic integer r: UTF-8 encoding, case-split on the
// encoded length (bit-vector mode only beyond ASCII).
func (fr *frame) runeToString(x sv) value {
	i := fr.i
	c := i.ctx
	r := i.symConvInt(fr, x, types.Int32)
	lt := func(k int32) bool {
		t, _ := i.term(r)
		kt, _ := i.term(k)
		if t.Sort == sym.SInt {
			return fr.branch(c.Lt(t, kt))
		}
		return fr.branch(c.Slt(t, kt))
	}
	if lt(0) {
		return "\uFFFD"
	}
	if lt(0x80) {
		return normStr([]value{i.toByte(fr, r)})
	}
	if i.math {
		panic(unsupported("string(rune) of a symbolic non-ASCII rune in math mode"))
	}
	op := func(tok token.Token, a value, b int32) value { return fr.binop(tok, nil, a, b) }
	cont := func(shift int32) value {
		return i.toByte(fr, op(token.OR, op(token.AND, op(token.SHR, r, shift), 0x3F), 0x80))
	}
	if lt(0x800) {
		return normStr([]value{i.toByte(fr, op(token.OR, op(token.SHR, r, 6), 0xC0)), cont(0)})
	}
	if !lt(0xD800) && lt(0xE000) {
		return "\uFFFD"
	}
	if lt(0x10000) {
		return normStr([]value{i.toByte(fr, op(token.OR, op(token.SHR, r, 12), 0xE0)), cont(6), cont(0)})
	}
	if lt(0x110000) {
		return normStr([]value{i.toByte(fr, op(token.OR, op(token.SHR, r, 18), 0xF0)), cont(12), cont(6), cont(0)})
	}
	return "\uFFFD"
}

func (i *interpreter) toByte(fr *frame, v value) value {
	if s, ok := v.(sv); ok {
		return i.symConvInt(fr, s, types.Uint8)
	}
	return uint8(asInt64(v))
}

// Go's slice growth, reproduced so that spare capacity after append (and therefore aliasing
// between old and new slices) is what the real runtime gives for the real element size.
var sizeClasses = []int64{0, 8, 16, 24, 32, 48, 64, 80, 96, 112, 128, 144, 160, 176, 192, 208, 224, 240, 256, 288, 320, 352, 384, 416, 448, 480, 512, 576, 640, 704, 768, 896, 1024, 1152, 1280, 1408, 1536, 1792, 2048, 2304, 2688, 3072, 3200, 3456, 4096, 4864, 5376, 6144, 6528, 6784, 6912, 8192, 9472, 9728, 10240, 10880, 12288, 13568, 14336, 16384, 18432, 19072, 20480, 21760, 24576, 27264, 28672, 32768}

func roundupsize(n int64) int64 {
	for _, c := range sizeClasses {
		if c >= n {
			return c
		}
	}
	// large: page multiple
	return (n + 8191) / 8192 * 8192
}

func goAppendSized(a, b []value, esz int64) []value {
	newLen := len(a) + len(b)
	if newLen <= cap(a) {
		return append(a, b...)
	}
	oldCap := int64(cap(a))
	newcap := oldCap
	doublecap := newcap + newcap
	switch {
	case int64(newLen) > doublecap:
		newcap = int64(newLen)
	case oldCap < 256:
		newcap = doublecap
	default:
		for newcap < int64(newLen) {
			newcap += (newcap + 3*256) / 4
		}
	}
	if esz > 0 {
		newcap = roundupsize(newcap*esz) / esz
	}
	if newcap < int64(newLen) {
		newcap = int64(newLen)
	}
	out := make([]value, newLen, newcap)
	copy(out, a)
	copy(out[len(a):], b)
	return out
}
