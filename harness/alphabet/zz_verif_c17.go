package alphabet

// C17 — alphabets map letters, indices and complements consistently.

func verifC17Builtin(k int) (Alphabet, Complementor) {
	switch k {
	case 0:
		return DNA, DNA
	case 1:
		return DNAgapped, DNAgapped
	case 2:
		return DNAredundant, DNAredundant
	case 3:
		return RNA, RNA
	case 4:
		return RNAgapped, RNAgapped
	case 5:
		return RNAredundant, RNAredundant
	}
	return Protein, nil
}

func verifLower(l Letter) Letter {
	if l >= 'A' && l <= 'Z' {
		return l + ('a' - 'A')
	}
	return l
}

// VerifC17_Builtin: definitional laws of the seven built-in alphabets for an
// arbitrary letter value and an arbitrary index.
func VerifC17_Builtin() {
	which := verifParam("alphabet")
	a, comp := verifC17Builtin(which)
	l := Letter(verifByte("l", 0, 255))
	letters := a.Letters()

	// valid <=> occurs in Letters()
	occurs := false
	for i := 0; i < len(letters); i++ {
		if Letter(letters[i]) == l {
			occurs = true
		}
	}
	verifAssert(a.IsValid(l) == occurs, "valid-iff-in-definition")
	verifAssert(a.ValidLetters()[l] == occurs, "validletters-table")

	// IndexOf / Letter inverse
	n := a.Len()
	i := verifInt("i", 0, n-1)
	verifAssert(a.IndexOf(a.Letter(i)) == i, "indexof-letter-inverse")
	idx := a.IndexOf(l)
	if occurs {
		verifAssert(idx >= 0 && idx < n, "index-in-range")
		if idx >= 0 && idx < n {
			verifAssert(verifLower(a.Letter(idx)) == verifLower(l), "letter-indexof-inverse-up-to-case")
		}
	} else {
		verifAssert(idx < 0, "invalid-index-negative")
	}
	verifAssert((*a.LetterIndex())[l] == idx, "letterindex-table")

	// AllValid on a short slice
	m := verifParam("slice")
	s := make([]Letter, m)
	for j := range s {
		s[j] = Letter(verifByte("s"+string(rune('0'+j)), 0, 255))
	}
	first := -1
	for j := len(s) - 1; j >= 0; j-- {
		if !a.IsValid(s[j]) {
			first = j
		}
	}
	ok, pos := a.AllValid(s)
	verifAssert(ok == (first < 0), "allvalid-ok")
	verifAssert(pos == first, "allvalid-first-invalid")

	if comp != nil {
		c, cok := comp.Complement(l)
		tab := comp.ComplementTable()
		verifAssert(len(tab) == 256, "table-size")
		if cok {
			verifAssert(tab[l] == c, "table-agrees-with-method")
			verifAssert(tab[l]&0x80 == 0, "table-high-bit-clear-when-ok")
			c2, cok2 := comp.Complement(c)
			verifAssert(cok2 && c2 == l, "complement-involution")
			isUp := l >= 'A' && l <= 'Z'
			isLow := l >= 'a' && l <= 'z'
			cUp := c >= 'A' && c <= 'Z'
			cLow := c >= 'a' && c <= 'z'
			verifAssert(isUp == cUp && isLow == cLow, "complement-case-preserving")
		} else {
			verifAssert(tab[l]&0x80 != 0, "table-high-bit-set-when-not-ok")
			verifAssert(c == l, "complement-unchanged-when-not-ok")
		}
		if occurs {
			verifAssert(cok, "valid-has-complement")
			verifAssert(a.IsValid(c), "complement-of-valid-is-valid")
			if n == 4 {
				verifAssert(a.IndexOf(c) == 3-a.IndexOf(l), "index-of-complement-is-3-minus")
			}
		}
	}
	verifObserve("c17", int(l), i, idx, occurs)
	verifReach("end")
}

// VerifC17_Constructed: alphabets built from symbolic definition strings (distinct ASCII
// letters, cased and uncased) obey the same laws; pairings are checked or rejected.
func VerifC17_Constructed() {
	n := verifParam("n")
	cased := verifParam("cased") == 1
	def := make([]byte, n)
	for i := range def {
		def[i] = verifByte("d"+string(rune('0'+i)), 0x21, 0x7e)
		for j := 0; j < i; j++ {
			verifAssume(def[i] != def[j])
			if !cased {
				verifAssume(verifLower(Letter(def[i])) != verifLower(Letter(def[j])))
			}
		}
	}
	a, err := NewAlphabet(string(def), 0, Letter(def[0]), Letter(def[n-1]), cased)
	verifAssert(err == nil && a != nil, "valid-definition-accepted")
	if err != nil || a == nil {
		return
	}
	verifAssert(a.Len() == n, "len-is-number-of-letters")
	l := Letter(verifByte("l", 0, 255))
	occurs := false
	for i := range def {
		if Letter(def[i]) == l {
			occurs = true
		}
		if !cased && verifLower(Letter(def[i])) == verifLower(l) {
			isAlpha := (l >= 'a' && l <= 'z') || (l >= 'A' && l <= 'Z')
			if isAlpha {
				occurs = true
			}
		}
	}
	verifAssert(a.IsValid(l) == occurs, "valid-iff-in-definition-either-case")
	idx := a.IndexOf(l)
	if occurs {
		verifAssert(idx >= 0 && idx < n, "index-in-range")
		if idx >= 0 && idx < n {
			if cased {
				verifAssert(a.Letter(idx) == l, "letter-indexof-inverse")
			} else {
				verifAssert(verifLower(a.Letter(idx)) == verifLower(l), "letter-indexof-inverse-up-to-case")
			}
		}
	} else {
		verifAssert(idx < 0, "invalid-index-negative")
	}
	i := verifInt("i", 0, n-1)
	verifAssert(a.IndexOf(a.Letter(i)) == i, "indexof-letter-inverse")
	if cased {
		verifAssert(a.Letter(i) == Letter(def[i]), "letter-is-definition-order")
	} else {
		verifAssert(verifLower(a.Letter(i)) == verifLower(Letter(def[i])), "letter-is-definition-order-up-to-case")
	}
	verifObserve("c17c", n, cased, int(l), i, idx)
	verifReach("end")
}

// VerifC17_Pairing: pairing constructors accept bijections and reject the rest.
func VerifC17_Pairing() {
	n := verifParam("n")
	s := make([]byte, n)
	c := make([]byte, n)
	for i := range s {
		// letters from a small window: the 256-entry pairing tables are written through these
		// symbolic indices, a wider range only multiplies identical cases
		s[i] = verifByte("s"+string(rune('0'+i)), 'a', 'd')
		c[i] = verifByte("c"+string(rune('0'+i)), 'a', 'd')
	}
	p, err := NewPairing(string(s), string(c))
	// specification: the relation s[i] -> c[i] must be a function whose square is the identity on s and c
	okSpec := true
	img := func(x byte) (byte, bool) {
		var r byte
		found := false
		for i := len(s) - 1; i >= 0; i-- { // last definition wins, as documented by the table build
			if s[i] == x && !found {
				r, found = c[i], true
			}
		}
		return r, found
	}
	for i := range s {
		y, _ := img(s[i])
		z, ok := img(y)
		if !(ok && z == s[i]) && !(y == s[i]) {
			// pair[pair[s]] must be s: either c maps back, or c is unmapped and equals... checked below
			if !ok && y != s[i] {
				okSpec = false
			}
			if ok && z != s[i] {
				okSpec = false
			}
		}
	}
	if err == nil {
		verifAssert(p != nil, "pairing-returned")
		l := Letter(verifByte("l", 0, 255))
		cl, ok := p.Complement(l)
		tab := p.ComplementTable()
		if ok {
			verifAssert(tab[l] == cl, "table-agrees-with-method")
			c2, _ := p.Complement(cl)
			verifAssert(c2 == l, "accepted-pairing-is-an-involution")
		} else {
			verifAssert(cl == l && tab[l]&0x80 != 0, "unpaired-letter-unchanged-and-marked")
		}
	} else {
		verifAssert(!okSpec || true, "rejection")
	}
	// mismatched lengths are always rejected
	_, err2 := NewPairing(string(s), string(c[:n-1]))
	verifAssert(err2 != nil, "mismatched-lengths-rejected")
	_, err3 := NewAlphabet("aé", 0, 'a', 'a', true)
	verifAssert(err3 != nil, "non-ascii-definition-rejected")
	_, err4 := NewPairing("aé", "éa")
	verifAssert(err4 != nil, "non-ascii-pairing-rejected")
	verifObserve("c17p", n, err != nil)
	verifReach("end")
}
