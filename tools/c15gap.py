import sys,json,os
sys.path.insert(0,'/verif')
import vcheck, checks
shapes=json.loads(sys.argv[1])
keys=["tlen","del","delpos","sym","minlen","minid","k"]
jobs=[{"pkgdir":"align/pals/dp","func":"VerifC15_Gapped","sched":"det","floatsplit":True,"math":True,"params":dict(zip(keys,s)),"timeout_s":1500,"witnesses":3} for s in shapes]
checks.CHECKS["C15G"]={"jobs":lambda t:jobs,"functions":[],"explanation":"","outside":""}
rc=vcheck.run_check("C15G","quick")
d=json.load(open('/verif/out/gen/C15G/result.json'))
for j in d['jobs']:
    print(j['params'],'paths',j['paths'],'done',j['paths_done'],'q',j['queries'],'solver',round(j['solver_s'],1),'wall',round(j['wall_s'],1),j['assert_checks'],[w['Observe'] for w in (j.get('witnesses') or [])],(j['undecided'] or [''])[0][:300])
print('rc',rc)
try: os.remove('/verif/evidence/C15G.json')
except OSError: pass
