package morass

// C12 — concurrent-mode external sort is schedule independent.

import "io"

// VerifC12_Concurrent: concurrent chunk writing under the symbolic scheduler.
func VerifC12_Concurrent() {
	verifOps, verifFaultHit = 0, false
	chunk, n := verifParam("chunk"), verifParam("n0")
	m, err := New(verifKey(0), "verif", "", chunk, true)
	verifAssert(err == nil, "new-succeeds")
	if err != nil {
		return
	}
	pushed := make([]int, n)
	for i := 0; i < n; i++ {
		pushed[i] = verifInt("k"+string(rune('0'+i)), 0, 2)
		verifAssert(m.Push(verifKey(pushed[i])) == nil, "push-succeeds")
	}
	verifAssert(m.Finalise() == nil, "finalise-succeeds")
	var pulled []int
	for p := 0; p <= n; p++ {
		var x verifKey
		perr := m.Pull(&x)
		if perr == io.EOF {
			break
		}
		verifAssert(perr == nil, "pull-succeeds")
		if perr != nil {
			break
		}
		pulled = append(pulled, int(x))
	}
	verifAssert(len(pulled) == n, "no-value-lost-or-duplicated")
	for i := 0; i+1 < len(pulled); i++ {
		verifAssert(pulled[i] <= pulled[i+1], "pulled-in-non-decreasing-order")
	}
	if len(pulled) == n {
		same := true
		for _, e := range pushed {
			np, nq := 0, 0
			for _, x := range pushed {
				if x == e {
					np++
				}
			}
			for _, x := range pulled {
				if x == e {
					nq++
				}
			}
			if np != nq {
				same = false
			}
		}
		verifAssert(same, "pulled-multiset-equals-pushed-multiset")
	}
	verifSettle()
	m.CleanUp()
	verifObserve("c12", chunk, n, len(pulled))
	verifReach("end")
}
