package concurrent

// C19 — workers deliver each result once and stop cleanly; promises settle once.

import (
	"errors"
	"sync"
)

var verifErr = errors.New("operation failed")

// ---------------------------------------------------------------------------------------
// sequential promise laws

// VerifC19_PromiseSeq: a symbolic string of Fulfill/Fail/Wait calls on one promise.
func VerifC19_PromiseSeq() {
	nops := verifParam("ops")
	mutable, recoverable, relay := verifBool("mutable"), verifBool("recoverable"), verifBool("relay")
	p := NewPromise(mutable, recoverable, relay)
	// model
	set, failed := false, false
	relayed := false
	var val int
	for step := 0; step < nops; step++ {
		st := string(rune('0' + step))
		switch verifChoice("op"+st, 3) {
		case 0: // Fulfill (value 0 stands for the nil interface value, a legitimate result)
			v := verifInt("v"+st, 0, 3)
			var arg interface{}
			if v > 0 {
				arg = v
			}
			err := p.Fulfill(arg)
			switch {
			case failed:
				verifAssert(err != nil, "fulfill-of-failed-promise-errors")
			case !set || mutable:
				verifAssert(err == nil, "first-fulfill-succeeds")
				set, val = true, v
			default:
				verifAssert(err != nil, "second-fulfill-of-immutable-promise-errors")
				if relay {
					relayed = true
					failed = true
				}
			}
		case 1: // Fail
			v := verifInt("v"+st, 1, 3)
			ok := p.Fail(v, verifErr)
			if !set && !failed {
				verifAssert(ok, "fail-of-unset-promise-succeeds")
				failed, set, val = true, true, v
			} else {
				verifAssert(!ok, "fail-of-settled-promise-refused")
			}
		case 2: // Wait
			if !set && !failed {
				continue // would block: a promise nobody settles
			}
			r := <-p.Wait()
			if set {
				got, isInt := r.Value.(int)
				verifAssert((val == 0 && r.Value == nil) || (isInt && got == val), "wait-returns-the-settled-value")
			}
			verifAssert((r.Err != nil) == failed, "wait-returns-the-failure")
		}
	}
	_ = relayed
	verifObserve("c19s", nops, set, failed, val)
	verifReach("end")
}

// ---------------------------------------------------------------------------------------
// concurrent promise: every goroutine performs one call; all interleavings of their
// channel and mutex steps within the pre-emption bound are explored.

func VerifC19_PromiseConc() {
	g := verifParam("goroutines")
	mode := verifParam("mode") // 0: concurrent Fulfills; 1: settled, then concurrent Waits; 2: Waits and Fulfills mixed; 3: Waits, Fulfills and Fails mixed
	p := NewPromise(false, false, false)
	okFulfill := make([]bool, g+1)
	okFail := make([]bool, g)
	waited := make([]bool, g)
	got := make([]int, g)
	gotErr := make([]bool, g)
	var wg sync.WaitGroup
	kinds := make([]int, g)
	for i := 0; i < g; i++ {
		switch mode {
		case 0:
			kinds[i] = 0
		case 1:
			kinds[i] = 1
		case 2:
			kinds[i] = verifChoice("kind"+string(rune('0'+i)), 2)
		default:
			kinds[i] = verifChoice("kind"+string(rune('0'+i)), 3) // 2 = Fail
		}
	}
	if mode >= 2 {
		nf, nw := 0, 0
		for _, k := range kinds {
			if k == 1 {
				nw++
			} else {
				nf++
			}
		}
		verifAssume(nf >= 1 && nw >= 1) // somebody settles the promise, somebody waits
		// (until /repo 9cd465d this scenario was the known finding C19-promise-wait-window:
		// Wait held the result outside the mutex, a Fulfill in that window succeeded twice)
	}
	if mode == 1 {
		okFulfill[g] = p.Fulfill(10+g) == nil
	}
	for i := 0; i < g; i++ {
		wg.Add(1)
		i := i
		go func() {
			defer wg.Done()
			switch kinds[i] {
			case 0:
				okFulfill[i] = p.Fulfill(10+i) == nil
			case 2:
				okFail[i] = p.Fail(10+i, verifErr)
			default:
				r := <-p.Wait()
				waited[i] = true
				gotErr[i] = r.Err != nil
				if v, ok := r.Value.(int); ok {
					got[i] = v
				}
			}
		}()
	}
	wg.Wait()
	nok := 0
	winner := -1
	for i := 0; i <= g; i++ {
		if okFulfill[i] {
			nok++
			winner = 10 + i
		}
	}
	failed := false
	for i := 0; i < g; i++ {
		if okFail[i] {
			nok++
			winner = 10 + i
			failed = true
		}
	}
	verifAssert(nok == 1, "exactly-one-successful-fulfill")
	for i := 0; i < g; i++ {
		if kinds[i] == 1 {
			verifAssert(waited[i], "every-wait-returns")
			if nok == 1 {
				verifAssert(got[i] == winner, "every-wait-returns-the-fulfilled-value")
				verifAssert(gotErr[i] == failed, "every-wait-returns-the-failure-iff-failed")
			}
		}
	}
	// and a Wait started after fulfilment returns it too
	r := <-p.Wait()
	if v, ok := r.Value.(int); ok && nok == 1 {
		verifAssert(v == winner, "late-wait-returns-the-fulfilled-value")
	}
	verifObserve("c19c", g, mode, nok)
	verifReach("end")
}

// ---------------------------------------------------------------------------------------
// Processor

type verifOp struct {
	v    int
	fail bool
}

func (o verifOp) Operation() (interface{}, error) {
	if o.fail {
		return nil, verifErr
	}
	return o.v, nil
}

// VerifC19_Processor: every submitted operation yields exactly one result with its value or
// error; after Close all workers exit, Wait returns, the result channel is closed once.
func VerifC19_Processor() {
	threads, buffer, nops := verifParam("threads"), verifParam("buffer"), verifParam("nops")
	queue := make(chan Operator, verifParam("qbuf"))
	p := NewProcessor(queue, buffer, threads)
	ops := make([]verifOp, nops)
	for i := range ops {
		ops[i] = verifOp{v: 100 + i, fail: verifBool("fail" + string(rune('0'+i)))}
	}
	go func() {
		for _, o := range ops {
			p.Process(o)
		}
		p.Close()
	}()
	seen := make([]int, nops)
	nerr := 0
	total := 0
	for r := range p.out {
		total++
		if r.Err != nil {
			nerr++
			continue
		}
		v, ok := r.Value.(int)
		verifAssert(ok && v >= 100 && v < 100+nops, "result-carries-an-operation-value")
		if ok && v >= 100 && v < 100+nops {
			seen[v-100]++
		}
	}
	p.Wait()
	wantErr := 0
	for i, o := range ops {
		if o.fail {
			wantErr++
		} else {
			verifAssert(seen[i] == 1, "each-successful-operation-delivers-exactly-one-result")
		}
	}
	verifAssert(nerr == wantErr, "each-failing-operation-delivers-exactly-one-error")
	verifAssert(total == nops, "one-result-per-operation")
	verifAssert(p.Working() == 0, "all-workers-returned-their-token")
	verifObserve("c19p", threads, buffer, nops, total, nerr)
	verifReach("end")
}

// VerifC19_ProcessorStop: Stop() with operations still queued. Workers stop cleanly: no panic
// escapes a worker, every result delivered carries a submitted operation's value at most
// once, all workers exit, Wait returns and the result channel is closed.
func VerifC19_ProcessorStop() {
	threads, buffer, nops := verifParam("threads"), verifParam("buffer"), verifParam("nops")
	queue := make(chan Operator, nops)
	p := NewProcessor(queue, buffer, threads)
	for i := 0; i < nops; i++ {
		p.Process(verifOp{v: 100 + i})
	}
	p.Stop()
	p.Close()
	seen := make([]int, nops)
	total := 0
	for r := range p.out {
		total++
		v, ok := r.Value.(int)
		verifAssert(r.Err == nil && ok && v >= 100 && v < 100+nops, "result-carries-an-operation-value")
		if ok && v >= 100 && v < 100+nops {
			seen[v-100]++
			verifAssert(seen[v-100] == 1, "no-operation-delivers-two-results")
		}
	}
	p.Wait()
	verifAssert(total <= nops, "no-more-results-than-operations")
	verifAssert(p.Working() == 0, "all-workers-returned-their-token")
	verifObserve("c19s", threads, buffer, nops)
	verifReach("end")
}

// VerifC19_ProcessorWait: Wait is called before the results are collected (the result buffer
// holds them all). When Wait returns every worker has exited: no worker is working, every
// result is already in the buffer and the result channel is closed.
func VerifC19_ProcessorWait() {
	threads, nops := verifParam("threads"), verifParam("nops")
	queue := make(chan Operator, nops)
	p := NewProcessor(queue, nops, threads)
	for i := 0; i < nops; i++ {
		p.Process(verifOp{v: 100 + i})
	}
	p.Close()
	p.Wait()
	verifAssert(p.Working() == 0, "no-worker-working-after-wait")
	verifAssert(len(p.out) == nops, "all-results-delivered-when-wait-returns")
	total := 0
	for range p.out { // terminates only if the channel has been closed
		total++
	}
	verifAssert(total == nops, "one-result-per-operation")
	verifObserve("c19w", threads, nops)
	verifReach("end")
}

// ---------------------------------------------------------------------------------------
// Map

type verifInts []int

func (s verifInts) Operation() (interface{}, error) {
	sum := 0
	for _, x := range s {
		sum += x
	}
	return [2]int{len(s), sum}, nil
}
func (s verifInts) Slice(i, j int) Mapper { return s[i:j] }
func (s verifInts) Len() int              { return len(s) }

// VerifC19_Map: one result per chunk, the chunks partition the input.
func VerifC19_Map() {
	n, threads, chunk := verifParam("n"), verifParam("threads"), verifParam("chunk")
	set := make(verifInts, n)
	total := 0
	for i := range set {
		set[i] = 1 << uint(i) // distinct powers of two: sums identify subsets
		total += set[i]
	}
	res, err := Map(set, threads, chunk)
	verifAssert(err == nil, "map-succeeds")
	// chunk size used by Map: min(ceil(n/threads), chunk)
	cs := (n + threads - 1) / threads
	if chunk < cs {
		cs = chunk
	}
	want := 0
	if cs > 0 {
		want = (n + cs - 1) / cs
	}
	verifAssert(len(res) == want, "one-result-per-chunk")
	cnt, sum := 0, 0
	for _, r := range res {
		a, ok := r.([2]int)
		verifAssert(ok, "result-type")
		if ok {
			cnt += a[0]
			sum += a[1]
			verifAssert(a[0] >= 1 && a[0] <= cs, "chunk-within-size")
		}
	}
	verifAssert(cnt == n && sum == total, "chunks-partition-the-input")
	verifObserve("c19m", n, threads, chunk, len(res))
	verifReach("end")
}

type verifFailInts struct {
	xs   []int
	fail int // the element with this value makes its chunk fail
}

func (s verifFailInts) Operation() (interface{}, error) {
	sum := 0
	for _, x := range s.xs {
		if x == s.fail {
			return nil, verifErr
		}
		sum += x
	}
	return [2]int{len(s.xs), sum}, nil
}
func (s verifFailInts) Slice(i, j int) Mapper { return verifFailInts{s.xs[i:j], s.fail} }
func (s verifFailInts) Len() int              { return len(s.xs) }

// VerifC19_MapFail: one chunk fails (which one is symbolic). Map reports an error, every
// result it did return is a distinct chunk of the input, and nothing panics afterwards: the
// goroutines Map leaves behind are run until each is blocked or done.
func VerifC19_MapFail() {
	n, threads, chunk := verifParam("n"), verifParam("threads"), verifParam("chunk")
	set := verifFailInts{xs: make([]int, n)}
	for i := range set.xs {
		set.xs[i] = 1 << uint(i)
	}
	set.fail = 1 << uint(verifChoice("failing", n))
	res, err := Map(set, threads, chunk)
	verifAssert(err != nil, "failing-chunk-reported")
	seen := 0
	for _, r := range res {
		a, ok := r.([2]int)
		verifAssert(ok, "result-type")
		if ok {
			verifAssert(a[1]&seen == 0 && a[1]&set.fail == 0, "results-are-distinct-good-chunks")
			seen |= a[1]
		}
	}
	verifSettle() // a panic in a goroutine left behind is a crash of the program
	verifObserve("c19mf", n, threads, chunk)
	verifReach("end")
}
