#!/bin/bash
# usage: seedrun.sh <ID> <seed-dir> [tier] — confirm a seeded change in a scratch worktree, store it
# under /verif/seeded/<name>/, run the property's check against it (applied to /repo, undone afterwards).
set -u
ID=$1; SD=$2; TIER=${3:-quick}; NAME=$(basename $SD | sed "s/^seed2-\(.*\)/\1-r2/; s/^seed3-\(.*\)/\1-r3/; s/^seed4-\(.*\)/\1-r4/; s/^seed5-\(.*\)/\1-r5/; s/^seed6-\(.*\)/\1-r6/; s/^seed7-\(.*\)/\1-r7/; s/^seed9-\(.*\)/\1-r9/; s/^seedA-\(.*\)/\1-r10/; s/^seedB-\(.*\)/\1-r11/; s/^seed-//")
export GOFLAGS=-mod=mod GOPROXY=off GOSUMDB=off GOTOOLCHAIN=local
WT=/tmp/confirm-$NAME
git -C /repo worktree remove --force $WT >/dev/null 2>&1
git -C /repo worktree add -q --detach $WT HEAD || exit 3
DIR=$(python3 - "$SD/demo_test.go" "$WT" <<'PY'
import re,sys,os,glob
demo,wt=sys.argv[1],sys.argv[2]
src=open(demo).read()
pkg=re.search(r'^package (\w+)',src,re.M).group(1).replace('_test','')
head=src[:src.index('package ')]
cands=[]
for d,_,fs in os.walk(wt):
    if '/.git' in d: continue
    for f in fs:
        if f.endswith('.go') and not f.endswith('_test.go'):
            try:
                if re.search(r'^package %s\b'%pkg, open(os.path.join(d,f)).read(), re.M):
                    cands.append(os.path.relpath(d,wt)); break
            except Exception: pass
cands=sorted(set(cands), key=lambda c:-len(c))
for c in cands:
    if c in head:
        print(c); sys.exit(0)
print(cands[0] if cands else '.')
PY
)
TEST=$(grep -o 'func Test[A-Za-z0-9_]*' $SD/demo_test.go | head -1 | awk '{print $2}')
echo "== $NAME: demo pkg dir=$DIR test=$TEST"
cp $SD/demo_test.go $WT/$DIR/zz_seed_demo_test.go
RACEFLAG=${SEEDRUN_RACE:+-race}
(cd $WT && go test $RACEFLAG -vet=off -count=1 -run "^$TEST\$" ./$DIR >/tmp/confirm-$NAME.unpatched 2>&1); R0=$?
(cd $WT && git apply $SD/patch.diff) || { echo "patch does not apply"; exit 3; }
(cd $WT && go test $RACEFLAG -vet=off -count=1 -run "^$TEST\$" ./$DIR >/tmp/confirm-$NAME.patched 2>&1); R1=$?
rm $WT/$DIR/zz_seed_demo_test.go
(cd $WT && go build ./... && go test -vet=off -count=1 ./... >/tmp/confirm-$NAME.suite 2>&1); R2=$?
echo "demo unpatched rc=$R0 (want 0)  demo patched rc=$R1 (want !=0)  suite with patch rc=$R2 (want 0)"
if [ $R0 -ne 0 ] || [ $R1 -eq 0 ] || [ $R2 -ne 0 ]; then echo "SEED NOT CONFIRMED"; git -C /repo worktree remove --force $WT; exit 4; fi
mkdir -p /verif/seeded/$NAME && cp $SD/patch.diff $SD/demo_test.go $SD/meta.json /verif/seeded/$NAME/
# run the check against the seeded tree: the scratch worktree (patch applied) stands in for /repo
# through VERIF_REPO, so /repo itself is never touched and several seeds can be checked at once
(cd /verif && VERIF_REPO=$WT timeout 3000 python3 vcheck.py $ID $TIER > /tmp/seedcheck-$NAME.log 2>&1); RC=$?
git -C /repo worktree remove --force $WT
echo "check $ID $TIER on seeded tree: rc=$RC"; grep -m3 "VIOLATION\|UNDECIDED" /tmp/seedcheck-$NAME.log | cut -c1-220; tail -1 /tmp/seedcheck-$NAME.log | cut -c1-200
exit 0
