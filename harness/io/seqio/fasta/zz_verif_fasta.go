package fasta

// C01 (write-then-read), C03 (reader totality), C04 (layout independence) for FASTA.

import (
	"bufio"
	"bytes"
	"io"

	"github.com/biogo/biogo/alphabet"
	"github.com/biogo/biogo/seq"
	"github.com/biogo/biogo/seq/linear"
)

func verifRead(r *Reader) (s seq.Sequence, err error, panicked bool) {
	defer func() {
		if p := recover(); p != nil {
			if _, ok := p.(verifAssumeFailed); ok {
				panic(p)
			}
			panicked = true
		}
	}()
	s, err = r.Read()
	return
}

// VerifC03_Fasta: every byte of the input is symbolic.
func VerifC03_Fasta() {
	n := verifParam("n")
	hi := byte(127)
	if verifParam("nonascii") == 1 {
		hi = 255
	}
	data := make([]byte, n)
	lines := 0
	for i := range data {
		data[i] = verifByte("b"+string(rune('a'+i)), 0, hi)
		if data[i] == '\n' {
			lines++
		}
	}
	r := NewReader(bytes.NewReader(data), linear.NewSeq("", nil, alphabet.DNA))
	calls := 0
	ended := false
	for calls < n+3 {
		s, err, panicked := verifRead(r)
		calls++
		verifAssert(!panicked, "read-never-panics")
		if panicked {
			return
		}
		verifAssert(s != nil || err != nil, "record-or-error")
		if err != nil {
			ended = true
			break
		}
	}
	verifAssert(ended, "reaches-eof-or-error")
	verifAssert(calls <= lines+2, "ends-within-one-call-per-line-plus-one")
	verifObserve("c03fa", n, calls, lines)
	verifReach("end")
}

type verifRecord struct {
	name, desc []byte
	letters    []alphabet.Letter
}

// printable, no whitespace
func verifWord(name string, n int, first bool) []byte {
	b := make([]byte, n)
	for i := range b {
		b[i] = verifByte(name+string(rune('a'+i)), 0x21, 0x7e)
	}
	return b
}

// single-line, trimmed description: printable incl. inner spaces
func verifDesc(name string, n int) []byte {
	b := make([]byte, n)
	for i := range b {
		lo := byte(0x20)
		if i == 0 || i == n-1 {
			lo = 0x21
		}
		b[i] = verifByte(name+string(rune('a'+i)), lo, 0x7e)
	}
	return b
}

func verifLetters(name string, n int, alpha alphabet.Alphabet) []alphabet.Letter {
	ls := make([]alphabet.Letter, n)
	for i := range ls {
		ls[i] = alphabet.Letter(verifByte(name+string(rune('a'+i)), 0x21, 0x7e))
		verifAssume(alpha.IsValid(ls[i]))
	}
	return ls
}

func verifMkRecords(alpha alphabet.Alphabet) []verifRecord {
	nrec := verifParam("records")
	recs := make([]verifRecord, nrec)
	for k := range recs {
		ks := string(rune('0' + k))
		recs[k] = verifRecord{
			name:    verifWord("n"+ks, verifParam("name"), true),
			desc:    verifDesc("d"+ks, verifParam("desc")),
			letters: verifLetters("l"+ks, verifParam("len"+ks), alpha),
		}
	}
	return recs
}

func verifWriteAll(recs []verifRecord, alpha alphabet.Alphabet, width int) []byte {
	var buf bytes.Buffer
	w := NewWriter(&buf, width)
	for _, rc := range recs {
		s := linear.NewSeq(string(rc.name), append([]alphabet.Letter(nil), rc.letters...), alpha)
		s.Desc = string(rc.desc)
		before := buf.Len()
		n, err := w.Write(s)
		verifAssert(err == nil, "write-succeeds")
		verifAssert(n == buf.Len()-before, "reported-byte-count-equals-bytes-emitted")
	}
	return buf.Bytes()
}

func verifReadAll(text []byte, alpha alphabet.Alphabet, small bool, max int) (out []verifRecord, ok bool) {
	var rd *Reader
	if small {
		// a 16-byte bufio buffer, so that physical lines longer than the buffer (isPrefix) occur
		rd = NewReader(bytes.NewReader(nil), linear.NewSeq("", nil, alpha))
		rd.r = bufio.NewReaderSize(bytes.NewReader(text), 16)
	} else {
		rd = NewReader(bytes.NewReader(text), linear.NewSeq("", nil, alpha))
	}
	for k := 0; k <= max+1; k++ {
		s, err := rd.Read()
		if err == io.EOF {
			return out, true
		}
		if err != nil || s == nil {
			return out, false
		}
		ls := s.(*linear.Seq)
		out = append(out, verifRecord{[]byte(ls.Name()), []byte(ls.Description()), ls.Seq})
	}
	return out, false
}

func verifSameRecords(a, b []verifRecord, tag string) {
	verifAssert(len(a) == len(b), tag+"-same-number-of-records")
	if len(a) != len(b) {
		return
	}
	for k := range a {
		verifAssert(bytes.Equal(a[k].name, b[k].name), tag+"-same-name")
		verifAssert(bytes.Equal(a[k].desc, b[k].desc), tag+"-same-description")
		verifAssert(len(a[k].letters) == len(b[k].letters), tag+"-same-length")
		if len(a[k].letters) == len(b[k].letters) {
			for i := range a[k].letters {
				verifAssert(a[k].letters[i] == b[k].letters[i], tag+"-same-letters")
			}
		}
	}
}

// VerifC01_Fasta: records written at a line width are read back identically.
func VerifC01_Fasta() {
	alpha := []alphabet.Alphabet{alphabet.DNA, alphabet.DNAredundant, alphabet.Protein}[verifParam("alphabet")]
	recs := verifMkRecords(alpha)
	width := 1 + verifChoice("width", verifParam("maxwidth"))
	text := verifWriteAll(recs, alpha, width)
	got, ok := verifReadAll(text, alpha, verifParam("small") == 1, len(recs))
	verifAssert(ok, "read-back-ends-with-eof")
	verifSameRecords(recs, got, "roundtrip")
	verifObserve("c01fa", len(recs), width, len(text))
	verifReach("end")
}

// VerifC04_Fasta: the parsed records do not depend on the line layout.
func VerifC04_Fasta() {
	alpha := alphabet.DNA
	recs := verifMkRecords(alpha)
	w1 := 1 + verifChoice("width", verifParam("maxwidth"))
	text := verifWriteAll(recs, alpha, w1)
	base, ok := verifReadAll(text, alpha, false, len(recs))
	verifAssert(ok, "canonical-text-parses")
	var alt []byte
	switch verifChoice("transform", 6) {
	case 0: // re-wrap at another width
		alt = verifWriteAll(recs, alpha, 1+verifChoice("width2", verifParam("maxwidth")))
	case 1: // blank line inserted at a line boundary
		k := verifChoice("blankat", bytes.Count(text, []byte{'\n'}))
		seen := 0
		for _, c := range text {
			alt = append(alt, c)
			if c == '\n' {
				if seen == k {
					alt = append(alt, '\n')
				}
				seen++
			}
		}
	case 2: // trailing blanks before a line end
		k := verifChoice("trailat", bytes.Count(text, []byte{'\n'}))
		seen := 0
		for _, c := range text {
			if c == '\n' {
				if seen == k {
					alt = append(alt, ' ', '\t')
				}
				seen++
			}
			alt = append(alt, c)
		}
	case 3: // CRLF
		for _, c := range text {
			if c == '\n' {
				alt = append(alt, '\r')
			}
			alt = append(alt, c)
		}
	case 4: // final terminator dropped
		alt = append(alt, text...)
		if len(alt) > 0 {
			alt = alt[:len(alt)-1]
		}
	case 5: // the whole sequence on one physical line, read through a 16-byte buffer
		alt = verifWriteAll(recs, alpha, 1000)
		got, ok2 := verifReadAll(alt, alpha, true, len(recs))
		verifAssert(ok2, "long-line-parses")
		verifSameRecords(base, got, "long-lines")
		verifReach("end")
		return
	}
	got, ok2 := verifReadAll(alt, alpha, false, len(recs))
	verifAssert(ok2, "transformed-text-parses")
	verifSameRecords(base, got, "layout")
	verifObserve("c04fa", len(recs), len(text), len(alt))
	verifReach("end")
}
