package dp

// C15 (first half) — hits returned by the PALS banded aligner are real alignments: inside both
// sequences, at least the minimum hit length on both, reported error within 1-minId, and a
// reported score no larger than the optimal global alignment score of the two hit regions
// under the PALS scoring (match +1, mismatch and indel -3). Tiny shapes only.

import (
	"github.com/biogo/biogo/align/pals/filter"
	"github.com/biogo/biogo/alphabet"
	"github.com/biogo/biogo/seq/linear"
)

func verifDNA(name string, n int) (*linear.Seq, []int) {
	ls := make([]alphabet.Letter, n)
	code := make([]int, n)
	for i := range ls {
		x := verifInt(name+string(rune('a'+i)), 0, 3)
		ls[i] = alphabet.Letter("acgt"[x])
		code[i] = x
	}
	return linear.NewSeq(name, ls, alphabet.DNA), code
}

func verifMax(a, b int) int {
	if a > b {
		return a
	}
	return b
}

// verifGlobal is Needleman-Wunsch with match +1, mismatch -3, indel -3.
func verifGlobal(a, b []int) int {
	prev := make([]int, len(b)+1)
	for j := range prev {
		prev[j] = -3 * j
	}
	for i := 1; i <= len(a); i++ {
		cur := make([]int, len(b)+1)
		cur[0] = -3 * i
		for j := 1; j <= len(b); j++ {
			s := -3
			if a[i-1] == b[j-1] {
				s = 1
			}
			cur[j] = verifMax(prev[j-1]+s, verifMax(prev[j]-3, cur[j-1]-3))
		}
		prev = cur
	}
	return prev[len(b)]
}

// VerifC15_AlignTraps: one trapezoid covering the whole comparison.
func VerifC15_AlignTraps() {
	tl, ql := verifParam("tlen"), verifParam("qlen")
	minLen, minIdPct, k := verifParam("minlen"), verifParam("minid"), verifParam("k")
	vecBuffering = 8
	target, tc := verifDNA("t", tl)
	query, qc := verifDNA("q", ql)
	minId := float64(minIdPct) / 100
	a := NewAligner(target, query, k, minLen, minId)
	a.Costs = &Costs{MaxIGap: 5, DiffCost: 3, SameCost: 1, MatchCost: 4, BlockCost: 15, RMatchCost: 4}
	hits := a.AlignTraps(filter.Trapezoids{{Bottom: 0, Top: ql, Left: -tl, Right: ql}})
	for _, h := range hits {
		ab, ae := verifConcrete(h.Abpos), verifConcrete(h.Aepos)
		bb, be := verifConcrete(h.Bbpos), verifConcrete(h.Bepos)
		inside := 0 <= ab && ab <= ae && ae <= tl && 0 <= bb && bb <= be && be <= ql
		verifAssert(inside, "hit-within-both-sequences")
		if !inside {
			continue
		}
		verifAssert(ae-ab >= minLen && be-bb >= minLen, "hit-at-least-minimum-length-on-both")
		verifAssert(h.Error <= 1-minId, "reported-error-within-one-minus-identity")
		verifAssert(h.Score <= verifGlobal(tc[ab:ae], qc[bb:be]), "score-not-above-optimal-global-score-of-the-regions")
	}
	verifObserve("c15", tl, ql, len(hits))
	verifReach("end")
}

const verifTemplate = "acgtcatgcaagtctgac"

// VerifC15_Gapped: sequences long enough for gapped hits. The target is a fixed template; the
// query is the template with `del` letters removed at `delpos` and `ins` letters inserted there
// (so the best alignment needs a gap and the two hit regions differ in length), and the query
// positions selected by the bit mask `sym` are symbolic letters.
func VerifC15_Gapped() {
	tl, del, delpos, mask := verifParam("tlen"), verifParam("del"), verifParam("delpos"), verifParam("sym")
	ins := verifParam("ins")
	minLen, minIdPct, k := verifParam("minlen"), verifParam("minid"), verifParam("k")
	vecBuffering = 8
	code := func(c byte) int {
		switch c {
		case 'a':
			return 0
		case 'c':
			return 1
		case 'g':
			return 2
		}
		return 3
	}
	tc := make([]int, tl)
	for i := range tc {
		tc[i] = code(verifTemplate[i])
	}
	var qc []int
	for i := 0; i < tl; i++ {
		if i == delpos {
			for x := 0; x < ins; x++ {
				qc = append(qc, (tc[i]+2)%4) // differs from the letters on either side of the cut
			}
		}
		if i >= delpos && i < delpos+del {
			continue
		}
		qc = append(qc, tc[i])
	}
	for i := range qc {
		if mask&(1<<uint(i)) != 0 {
			qc[i] = verifInt("q"+string(rune('a'+i)), 0, 3)
		}
	}
	mk := func(name string, c []int) *linear.Seq {
		ls := make([]alphabet.Letter, len(c))
		for i, x := range c {
			ls[i] = alphabet.Letter("acgt"[x])
		}
		return linear.NewSeq(name, ls, alphabet.DNA)
	}
	target, query := mk("t", tc), mk("q", qc)
	ql := len(qc)
	minId := float64(minIdPct) / 100
	a := NewAligner(target, query, k, minLen, minId)
	a.Costs = &Costs{MaxIGap: 5, DiffCost: 3, SameCost: 1, MatchCost: 4, BlockCost: 15, RMatchCost: 4}
	hits := a.AlignTraps(filter.Trapezoids{{Bottom: 0, Top: ql, Left: -tl, Right: ql}})
	gapped := 0
	for _, h := range hits {
		ab, ae := verifConcrete(h.Abpos), verifConcrete(h.Aepos)
		bb, be := verifConcrete(h.Bbpos), verifConcrete(h.Bepos)
		inside := 0 <= ab && ab <= ae && ae <= tl && 0 <= bb && bb <= be && be <= ql
		verifAssert(inside, "hit-within-both-sequences")
		if !inside {
			continue
		}
		verifAssert(ae-ab >= minLen && be-bb >= minLen, "hit-at-least-minimum-length-on-both")
		verifAssert(h.Error <= 1-minId, "reported-error-within-one-minus-identity")
		verifAssert(h.Score <= verifGlobal(tc[ab:ae], qc[bb:be]), "score-not-above-optimal-global-score-of-the-regions")
		if ae-ab != be-bb {
			gapped++
		}
	}
	verifObserve("c15g", tl, ql, len(hits), gapped)
	verifReach("end")
}

// VerifC15_TwoTraps: two trapezoids whose hits share a start point. Target and query carry a
// common block X, `subs` substituted letters, a common block Y and non-matching flanks; one
// trapezoid lies on X, the other on Y (extending back from Y crosses the substitutions and
// reaches the start of X). The query positions selected by `sym` are symbolic letters.
func VerifC15_TwoTraps() {
	xl, yl, subs, fl := verifParam("xlen"), verifParam("ylen"), verifParam("subs"), verifParam("flank")
	order, mask := verifParam("order"), verifParam("sym")
	minLen, minIdPct, k := verifParam("minlen"), verifParam("minid"), verifParam("k")
	vecBuffering = 8
	code := func(c byte) int {
		switch c {
		case 'a':
			return 0
		case 'c':
			return 1
		case 'g':
			return 2
		}
		return 3
	}
	var tc, qc []int
	for i := 0; i < fl; i++ {
		tc, qc = append(tc, 3), append(qc, 2) // t... against g...
	}
	for i := 0; i < xl; i++ {
		c := code(verifTemplate[i%len(verifTemplate)])
		tc, qc = append(tc, c), append(qc, c)
	}
	for i := 0; i < subs; i++ {
		tc, qc = append(tc, 0), append(qc, 1) // a against c
	}
	for i := 0; i < yl; i++ {
		c := code(verifTemplate[(xl+1+i)%len(verifTemplate)])
		tc, qc = append(tc, c), append(qc, c)
	}
	for i := 0; i < fl; i++ {
		tc, qc = append(tc, 3), append(qc, 2)
	}
	for i := range qc {
		if mask&(1<<uint(i)) != 0 {
			qc[i] = verifInt("q"+string(rune('a'+i)), 0, 3)
		}
	}
	mk := func(name string, c []int) *linear.Seq {
		ls := make([]alphabet.Letter, len(c))
		for i, x := range c {
			ls[i] = alphabet.Letter("acgt"[x])
		}
		return linear.NewSeq(name, ls, alphabet.DNA)
	}
	target, query := mk("t", tc), mk("q", qc)
	tl, ql := len(tc), len(qc)
	minId := float64(minIdPct) / 100
	a := NewAligner(target, query, k, minLen, minId)
	a.Costs = &Costs{MaxIGap: 5, DiffCost: 3, SameCost: 1, MatchCost: 4, BlockCost: 15, RMatchCost: 4}
	trapX := filter.Trapezoid{Bottom: fl, Top: fl + xl, Left: -2, Right: 2}
	trapY := filter.Trapezoid{Bottom: fl + xl + subs, Top: fl + xl + subs + yl, Left: -2, Right: 2}
	traps := filter.Trapezoids{trapX, trapY}
	if order == 1 {
		traps = filter.Trapezoids{trapY, trapX}
	}
	hits := a.AlignTraps(traps)
	for _, h := range hits {
		ab, ae := verifConcrete(h.Abpos), verifConcrete(h.Aepos)
		bb, be := verifConcrete(h.Bbpos), verifConcrete(h.Bepos)
		inside := 0 <= ab && ab <= ae && ae <= tl && 0 <= bb && bb <= be && be <= ql
		verifAssert(inside, "hit-within-both-sequences")
		if !inside {
			continue
		}
		verifAssert(ae-ab >= minLen && be-bb >= minLen, "hit-at-least-minimum-length-on-both")
		verifAssert(h.Error <= 1-minId, "reported-error-within-one-minus-identity")
		verifAssert(h.Score <= verifGlobal(tc[ab:ae], qc[bb:be]), "score-not-above-optimal-global-score-of-the-regions")
	}
	verifObserve("c15t", tl, ql, len(hits))
	verifReach("end")
}
