package interp

// Interpreter-level goroutines, channels, select, sync.Mutex, sync.WaitGroup under a
// baton-passing scheduler. Exactly one interpreted goroutine runs at a time; the
// engine alone decides who runs.

import (
	"fmt"
	"go/types"
	"sync"

	"golang.org/x/tools/go/ssa"
)

type goroutineKill struct{}

type gstate struct {
	id      int
	wake    chan struct{}
	done    bool
	blocked bool
	what    string // what it is blocked on (diagnostics)
	// delivery slot for a blocked receive / select
	recvVal  value
	recvOk   bool
	selCase  int
	panicked bool
	name     string
	daemon   bool
	vc       vclock // happens-before clock (race.go)
}

type ichan struct {
	id     int
	bufVC  []vclock // clock of the sender of each buffered value
	rvc    vclock   // joined clocks of completed receives (acquired by later sends)
	cvc    vclock   // clock of the close
	buf    []value
	cap    int
	closed bool
	recvq  []*waiter
	sendq  []*waiter
	elem   types.Type
	closes int
}

type waiter struct {
	g     *gstate
	vc    vclock // sender's clock at the send
	val   value  // for senders
	sel   *selWait
	caseI int
	dead  bool
}

type selWait struct {
	fired bool
}

type imutex struct {
	vc     vclock // released by Unlock
	rvc    vclock // released by RUnlock
	locked bool
	owner  int
	q      []*gstate
	// rwmutex readers
	readers int
}

type iwg struct {
	vc vclock
	n  int
	q  []*gstate
}

type scheduler struct {
	i        *interpreter
	gs       []*gstate
	cur      *gstate
	symbolic bool // symbolic scheduler: choice at every sync point
	preempt  int  // remaining pre-emption budget
	killed   bool
	abort    *pathEnd
	abortAny interface{}
	hostWG   sync.WaitGroup
	mutexes  map[*value]*imutex
	wgs      map[*value]*iwg
	onces    map[*value]bool
	onceVC   map[*value]vclock
	atomVC   map[*value]vclock
	race     *raceState
	conds    map[*value]*icond
	nchan    int
	switches int
	log      []int // schedule: goroutine ids in order of switches
}

func newScheduler(i *interpreter, symbolic bool, preempt int) *scheduler {
	s := &scheduler{i: i, symbolic: symbolic, preempt: preempt,
		mutexes: map[*value]*imutex{}, wgs: map[*value]*iwg{}, onces: map[*value]bool{},
		onceVC: map[*value]vclock{}, atomVC: map[*value]vclock{}}
	main := &gstate{id: 0, wake: make(chan struct{}, 1), name: "main"}
	s.gs = []*gstate{main}
	s.cur = main
	s.raceInit()
	return s
}

func (s *scheduler) runnable() []*gstate {
	var r []*gstate
	for _, g := range s.gs {
		if !g.done && !g.blocked {
			r = append(r, g)
		}
	}
	return r
}

// switchTo hands the baton to g and parks the current goroutine (unless it is done).
func (s *scheduler) switchTo(g *gstate) {
	cur := s.cur
	if g == cur {
		return
	}
	s.cur = g
	s.switches++
	s.log = append(s.log, g.id)
	g.wake <- struct{}{}
	if cur.done {
		return
	}
	<-cur.wake
	s.afterWake(cur)
}

func (s *scheduler) afterWake(g *gstate) {
	if s.killed {
		if g.id == 0 {
			// main is never killed; it is woken to abort the path
			if s.abortAny != nil {
				p := s.abortAny
				s.abortAny = nil
				panic(p)
			}
			return
		}
		panic(goroutineKill{})
	}
	if g.id == 0 && s.abortAny != nil {
		p := s.abortAny
		s.abortAny = nil
		panic(p)
	}
}

// point is a scheduling point before a synchronisation operation.
func (s *scheduler) point(fr *frame) {
	if !s.symbolic || len(s.gs) == 1 {
		return
	}
	if fr != nil && fr.guard != nil {
		return
	}
	rs := s.runnable()
	if len(rs) <= 1 || s.preempt <= 0 {
		return
	}
	// order: current first
	ord := []*gstate{s.cur}
	for _, g := range rs {
		if g != s.cur {
			ord = append(ord, g)
		}
	}
	k := fr.chooseN(len(ord))
	if k != 0 {
		s.preempt--
		s.switchTo(ord[k])
	}
}

// block parks the current goroutine until another goroutine makes it runnable.
func (s *scheduler) block(fr *frame, what string) {
	cur := s.cur
	cur.blocked = true
	cur.what = what
	for cur.blocked {
		rs := s.runnable()
		if len(rs) == 0 {
			s.deadlock(what)
		}
		var next *gstate
		if s.symbolic && len(rs) > 1 {
			next = rs[fr.chooseN(len(rs))]
		} else {
			next = rs[0]
		}
		s.switchTo(next)
	}
}

func (s *scheduler) deadlock(what string) {
	msg := "all goroutines are asleep:"
	for _, g := range s.gs {
		if !g.done {
			msg += fmt.Sprintf(" g%d(%s)", g.id, g.what)
		}
	}
	pe := pathEnd{kind: "deadlock", msg: msg}
	if s.cur.id == 0 {
		panic(pe)
	}
	// hand the verdict to main
	s.abortAny = pe
	s.cur.done = true
	s.cur = s.gs[0]
	s.gs[0].blocked = false
	s.gs[0].wake <- struct{}{}
	panic(goroutineKill{})
}

func (s *scheduler) ready(g *gstate) { g.blocked = false }

// exit is called when goroutine g has finished.
func (s *scheduler) exit(g *gstate) {
	g.done = true
	if s.killed {
		return
	}
	rs := s.runnable()
	if len(rs) == 0 {
		// everyone else is blocked: if main is blocked this is a deadlock
		s.abortAny = pathEnd{kind: "deadlock", msg: "goroutine exit leaves all goroutines blocked: " + s.describe()}
		s.gs[0].blocked = false
		s.cur = s.gs[0]
		s.gs[0].wake <- struct{}{}
		return
	}
	next := rs[0]
	s.cur = next
	s.log = append(s.log, next.id)
	next.wake <- struct{}{}
}

func (s *scheduler) describe() string {
	msg := ""
	for _, g := range s.gs {
		if !g.done {
			msg += fmt.Sprintf(" g%d(%s)", g.id, g.what)
		}
	}
	return msg
}

// killAll terminates all parked goroutines at the end of a path (called by main).
func (s *scheduler) killAll() {
	s.killed = true
	for _, g := range s.gs[1:] {
		if !g.done {
			select {
			case g.wake <- struct{}{}:
			default:
			}
		}
	}
	s.hostWG.Wait()
}

func (fr *frame) goStmt(instr *ssa.Go, fn value, args []value) {
	i := fr.i
	s := i.sched
	if s == nil {
		panic(unsupported("go statement without scheduler"))
	}
	if fr.guard != nil {
		panic(unsupported("go inside if-converted region"))
	}
	g := &gstate{id: len(s.gs), wake: make(chan struct{}, 1)}
	if f, ok := fn.(*ssa.Function); ok && f != nil {
		g.name = f.String()
	}
	s.gs = append(s.gs, g)
	// happens-before: everything the parent did so far precedes the child
	g.vc = s.cur.vc.clone()
	g.tick()
	s.cur.tick()
	s.hostWG.Add(1)
	go func() {
		defer s.hostWG.Done()
		<-g.wake
		if s.killed {
			return
		}
		defer func() {
			p := recover()
			switch p := p.(type) {
			case nil:
				s.exit(g)
			case goroutineKill:
				g.done = true
			case pathEnd, unsupportedErr:
				g.done = true
				if !s.killed {
					s.abortAny = p
					s.cur = s.gs[0]
					s.gs[0].blocked = false
					s.gs[0].wake <- struct{}{}
				}
			default:
				// a panic escaped the goroutine: the program crashes
				g.done = true
				if !s.killed {
					s.abortAny = pathEnd{kind: "crash", msg: fmt.Sprintf("panic in goroutine %d (%s): %s", g.id, g.name, panicString(p))}
					s.cur = s.gs[0]
					s.gs[0].blocked = false
					s.gs[0].wake <- struct{}{}
				}
			}
		}()
		gfr := &frame{i: i, g: g}
		_ = gfr
		call(i, nil, instr.Pos(), fn, args)
	}()
	s.point(fr)
}

func panicString(p interface{}) string {
	switch p := p.(type) {
	case targetPanic:
		return toString(p.v)
	case error:
		return p.Error()
	case string:
		return p
	}
	return fmt.Sprintf("%v", p)
}

func (fr *frame) makeChan(n int64) value {
	s := fr.i.sched
	id := 0
	if s != nil {
		s.nchan++
		id = s.nchan
	}
	return &ichan{cap: int(n), id: id}
}

func (fr *frame) chanSend(chv value, v value) {
	ch := chv.(*ichan)
	s := fr.i.sched
	if s == nil {
		panic(unsupported("channel send without scheduler"))
	}
	s.point(fr)
	if ch == nil {
		s.block(fr, "send on nil chan")
	}
	if ch.closed {
		panic(targetPanic{iface{fr.i.runtimeErrorString, "send on closed channel"}})
	}
	// waiting receiver?
	for len(ch.recvq) > 0 {
		w := ch.recvq[0]
		ch.recvq = ch.recvq[1:]
		if w.dead || (w.sel != nil && w.sel.fired) {
			continue
		}
		if w.sel != nil {
			w.sel.fired = true
		}
		w.g.recvVal, w.g.recvOk, w.g.selCase = v, true, w.caseI
		// the send precedes the receive; on an unbuffered channel the receive (already
		// started by w.g) also precedes the completion of the send
		s.cur.acquire(ch.rvc)
		w.g.acquire(s.cur.vc)
		if ch.cap == 0 {
			s.cur.acquire(w.g.vc)
		}
		s.cur.tick()
		w.g.release(&ch.rvc)
		s.ready(w.g)
		s.point(fr)
		return
	}
	if len(ch.buf) < ch.cap {
		ch.buf = append(ch.buf, v)
		s.cur.acquire(ch.rvc)
		ch.bufVC = append(ch.bufVC, s.cur.vc.clone())
		s.cur.tick()
		s.point(fr)
		return
	}
	w := &waiter{g: s.cur, val: v, vc: s.cur.vc.clone()}
	s.cur.tick()
	ch.sendq = append(ch.sendq, w)
	s.block(fr, fmt.Sprintf("chan send c%d", ch.id))
	s.cur.acquire(ch.rvc)
	if s.cur.panicked {
		s.cur.panicked = false
		panic(targetPanic{iface{fr.i.runtimeErrorString, "send on closed channel"}})
	}
}

func (fr *frame) chanRecv(chv value, elem types.Type) (value, bool) {
	ch := chv.(*ichan)
	s := fr.i.sched
	if s == nil {
		panic(unsupported("channel receive without scheduler"))
	}
	s.point(fr)
	if ch == nil {
		s.block(fr, "recv on nil chan")
	}
	if v, ok, done := ch.tryRecv(s); done {
		s.point(fr)
		if !ok {
			return zero(elem), false
		}
		return v, true
	}
	w := &waiter{g: s.cur}
	ch.recvq = append(ch.recvq, w)
	s.block(fr, fmt.Sprintf("chan recv c%d", ch.id))
	g := s.cur
	if !g.recvOk {
		return zero(elem), false
	}
	v := g.recvVal
	g.recvVal = nil
	return v, true
}

// tryRecv attempts a non-blocking receive. done=false means it would block.
func (ch *ichan) tryRecv(s *scheduler) (v value, ok bool, done bool) {
	if len(ch.buf) > 0 {
		v = ch.buf[0]
		ch.buf = ch.buf[1:]
		if len(ch.bufVC) > 0 {
			s.cur.acquire(ch.bufVC[0])
			ch.bufVC = ch.bufVC[1:]
		}
		defer s.cur.release(&ch.rvc)
		// move a blocked sender into the buffer
		for len(ch.sendq) > 0 {
			w := ch.sendq[0]
			ch.sendq = ch.sendq[1:]
			if w.dead || (w.sel != nil && w.sel.fired) {
				continue
			}
			if w.sel != nil {
				w.sel.fired = true
				w.g.selCase = w.caseI
			}
			ch.buf = append(ch.buf, w.val)
			ch.bufVC = append(ch.bufVC, w.vc)
			s.ready(w.g)
			break
		}
		return v, true, true
	}
	for len(ch.sendq) > 0 {
		w := ch.sendq[0]
		ch.sendq = ch.sendq[1:]
		if w.dead || (w.sel != nil && w.sel.fired) {
			continue
		}
		if w.sel != nil {
			w.sel.fired = true
			w.g.selCase = w.caseI
		}
		// rendezvous with a blocked sender
		s.cur.acquire(w.vc)
		if ch.cap == 0 {
			w.g.acquire(s.cur.vc)
		}
		s.cur.release(&ch.rvc)
		s.ready(w.g)
		return w.val, true, true
	}
	if ch.closed {
		s.cur.acquire(ch.cvc)
		return nil, false, true
	}
	return nil, false, false
}

func (ch *ichan) canSend() bool {
	if ch.closed {
		return true // will panic
	}
	for _, w := range ch.recvq {
		if !w.dead && (w.sel == nil || !w.sel.fired) {
			return true
		}
	}
	return len(ch.buf) < ch.cap
}

func (ch *ichan) canRecv() bool {
	if len(ch.buf) > 0 || ch.closed {
		return true
	}
	for _, w := range ch.sendq {
		if !w.dead && (w.sel == nil || !w.sel.fired) {
			return true
		}
	}
	return false
}

func (fr *frame) chanClose(chv value) {
	ch := chv.(*ichan)
	s := fr.i.sched
	if s != nil {
		s.point(fr)
	}
	if ch == nil {
		panic(targetPanic{iface{fr.i.runtimeErrorString, "close of nil channel"}})
	}
	if ch.closed {
		panic(targetPanic{iface{fr.i.runtimeErrorString, "close of closed channel"}})
	}
	ch.closed = true
	ch.closes++
	if s != nil {
		ch.cvc = s.cur.vc.clone()
		s.cur.tick()
	}
	for _, w := range ch.recvq {
		if w.dead || (w.sel != nil && w.sel.fired) {
			continue
		}
		if w.sel != nil {
			w.sel.fired = true
		}
		w.g.acquire(ch.cvc)
		w.g.recvVal, w.g.recvOk, w.g.selCase = nil, false, w.caseI
		s.ready(w.g)
	}
	ch.recvq = nil
	for _, w := range ch.sendq {
		if w.dead || (w.sel != nil && w.sel.fired) {
			continue
		}
		if w.sel != nil {
			w.sel.fired = true
			w.g.selCase = w.caseI
		}
		w.g.panicked = true
		s.ready(w.g)
	}
	ch.sendq = nil
}

func (fr *frame) selectStmt(instr *ssa.Select) value {
	s := fr.i.sched
	if s == nil {
		panic(unsupported("select without scheduler"))
	}
	s.point(fr)
	type st struct {
		ch   *ichan
		send bool
		val  value
	}
	var states []st
	for _, state := range instr.States {
		x := st{ch: fr.get(state.Chan).(*ichan), send: state.Dir == types.SendOnly}
		if x.send {
			x.val = fr.get(state.Send)
		}
		states = append(states, x)
	}
	result := func(chosen int, recv value, recvOk bool) value {
		r := tuple{chosen, recvOk}
		for k, state := range instr.States {
			if state.Dir == types.RecvOnly {
				var v value
				if k == chosen && recvOk {
					v = recv
				} else {
					v = zero(state.Chan.Type().Underlying().(*types.Chan).Elem())
				}
				r = append(r, v)
			}
		}
		return r
	}
	var ready []int
	for k, x := range states {
		if x.ch == nil {
			continue
		}
		if x.send && x.ch.canSend() || !x.send && x.ch.canRecv() {
			ready = append(ready, k)
		}
	}
	if len(ready) > 0 {
		k := ready[0]
		if len(ready) > 1 {
			// Go chooses uniformly at random among ready cases: explore all
			k = ready[fr.chooseN(len(ready))]
		}
		x := states[k]
		if x.send {
			if x.ch.closed {
				panic(targetPanic{iface{fr.i.runtimeErrorString, "send on closed channel"}})
			}
			// cannot block: perform the send
			sent := false
			for len(x.ch.recvq) > 0 {
				w := x.ch.recvq[0]
				x.ch.recvq = x.ch.recvq[1:]
				if w.dead || (w.sel != nil && w.sel.fired) {
					continue
				}
				if w.sel != nil {
					w.sel.fired = true
				}
				w.g.recvVal, w.g.recvOk, w.g.selCase = x.val, true, w.caseI
				s.cur.acquire(x.ch.rvc)
				w.g.acquire(s.cur.vc)
				if x.ch.cap == 0 {
					s.cur.acquire(w.g.vc)
				}
				s.cur.tick()
				w.g.release(&x.ch.rvc)
				s.ready(w.g)
				sent = true
				break
			}
			if !sent {
				x.ch.buf = append(x.ch.buf, x.val)
				s.cur.acquire(x.ch.rvc)
				x.ch.bufVC = append(x.ch.bufVC, s.cur.vc.clone())
				s.cur.tick()
			}
			return result(k, nil, false)
		}
		v, ok, _ := x.ch.tryRecv(s)
		return result(k, v, ok)
	}
	if !instr.Blocking {
		return result(-1, nil, false)
	}
	// block on all cases
	sw := &selWait{}
	g := s.cur
	any := false
	for k, x := range states {
		if x.ch == nil {
			continue
		}
		any = true
		w := &waiter{g: g, sel: sw, caseI: k, val: x.val, vc: g.vc.clone()}
		if x.send {
			x.ch.sendq = append(x.ch.sendq, w)
		} else {
			x.ch.recvq = append(x.ch.recvq, w)
		}
	}
	_ = any
	g.selCase = -1
	s.block(fr, "select")
	k := g.selCase
	if g.panicked {
		g.panicked = false
		panic(targetPanic{iface{fr.i.runtimeErrorString, "send on closed channel"}})
	}
	if states[k].send {
		g.acquire(states[k].ch.rvc)
		g.tick()
		return result(k, nil, false)
	}
	v, ok := g.recvVal, g.recvOk
	g.recvVal = nil
	return result(k, v, ok)
}

// ---------------------------------------------------------------------------
// sync primitives (keyed by the address of the object)

func (s *scheduler) mutex(p *value) *imutex {
	m := s.mutexes[p]
	if m == nil {
		m = &imutex{}
		s.mutexes[p] = m
	}
	return m
}

func (fr *frame) mutexLock(p *value) {
	s := fr.i.sched
	if s == nil {
		return // single goroutine, init phase: locks are no-ops
	}
	s.point(fr)
	m := s.mutex(p)
	for m.locked || m.readers > 0 {
		m.q = append(m.q, s.cur)
		s.block(fr, "mutex")
	}
	m.locked = true
	m.owner = s.cur.id
	s.cur.acquire(m.vc)
	s.cur.acquire(m.rvc)
}

func (fr *frame) mutexUnlock(p *value) {
	s := fr.i.sched
	if s == nil {
		return
	}
	m := s.mutex(p)
	if !m.locked {
		panic(targetPanic{iface{fr.i.runtimeErrorString, "sync: unlock of unlocked mutex"}})
	}
	m.locked = false
	s.cur.release(&m.vc)
	q := m.q
	m.q = nil
	for _, g := range q {
		s.ready(g)
	}
	s.point(fr)
}

func (fr *frame) rwRLock(p *value) {
	s := fr.i.sched
	if s == nil {
		return
	}
	s.point(fr)
	m := s.mutex(p)
	for m.locked {
		m.q = append(m.q, s.cur)
		s.block(fr, "rwmutex-r")
	}
	m.readers++
	s.cur.acquire(m.vc)
}

func (fr *frame) rwRUnlock(p *value) {
	s := fr.i.sched
	if s == nil {
		return
	}
	m := s.mutex(p)
	m.readers--
	s.cur.release(&m.rvc)
	if m.readers == 0 {
		q := m.q
		m.q = nil
		for _, g := range q {
			s.ready(g)
		}
	}
	s.point(fr)
}

func (s *scheduler) wg(p *value) *iwg {
	w := s.wgs[p]
	if w == nil {
		w = &iwg{}
		s.wgs[p] = w
	}
	return w
}

func (fr *frame) wgAdd(p *value, n int) {
	s := fr.i.sched
	if s == nil {
		return
	}
	s.point(fr)
	w := s.wg(p)
	w.n += n
	if n < 0 {
		s.cur.release(&w.vc)
	}
	if w.n < 0 {
		panic(targetPanic{iface{fr.i.runtimeErrorString, "sync: negative WaitGroup counter"}})
	}
	if w.n == 0 {
		q := w.q
		w.q = nil
		for _, g := range q {
			s.ready(g)
		}
	}
}

func (fr *frame) wgWait(p *value) {
	s := fr.i.sched
	if s == nil {
		return
	}
	s.point(fr)
	w := s.wg(p)
	for w.n > 0 {
		w.q = append(w.q, s.cur)
		s.block(fr, "waitgroup")
	}
	s.cur.acquire(w.vc)
}

// yield lets other goroutines run (runtime.Gosched, time.Sleep).
func (fr *frame) yield() {
	s := fr.i.sched
	if s == nil {
		return
	}
	if s.symbolic {
		s.point(fr)
		return
	}
	rs := s.runnable()
	for _, g := range rs {
		if g != s.cur {
			s.switchTo(g)
			return
		}
	}
}

// settle runs the other goroutines until every one of them is blocked or done and
// returns the number still alive (blocked).
func (fr *frame) settle() int {
	s := fr.i.sched
	if s == nil {
		return 0
	}
	for {
		var other []*gstate
		for _, g := range s.runnable() {
			if g != s.cur {
				other = append(other, g)
			}
		}
		if len(other) == 0 {
			break
		}
		k := 0
		if s.symbolic && len(other) > 1 {
			k = fr.chooseN(len(other))
		}
		s.switchTo(other[k])
	}
	n := 0
	for _, g := range s.gs {
		if g != s.cur && !g.done {
			n++
		}
	}
	return n
}
