package linear

// C05 — RevComp / Reverse / Clone algebra on linear.Seq and linear.QSeq.

import (
	"github.com/biogo/biogo/alphabet"
	"github.com/biogo/biogo/seq"
)

func verifC05Alpha(k int) alphabet.Alphabet {
	switch k {
	case 0:
		return alphabet.DNA
	case 1:
		return alphabet.DNAgapped
	case 2:
		return alphabet.DNAredundant
	case 3:
		return alphabet.RNA
	case 4:
		return alphabet.RNAgapped
	}
	return alphabet.RNAredundant
}

// verifPaired returns a symbolic letter that the alphabet's pairing complements.
func verifPaired(name string, c alphabet.Complementor) alphabet.Letter {
	l := alphabet.Letter(verifByte(name, 0, 127))
	_, ok := c.Complement(l)
	verifAssume(ok)
	return l
}

type verifModel struct {
	l      []alphabet.Letter
	q      []alphabet.Qphred
	strand seq.Strand
	start  int
}

func (m *verifModel) clone() *verifModel {
	return &verifModel{append([]alphabet.Letter(nil), m.l...), append([]alphabet.Qphred(nil), m.q...), m.strand, m.start}
}

func (m *verifModel) revcomp(c alphabet.Complementor) {
	n := len(m.l)
	nl := make([]alphabet.Letter, n)
	nq := make([]alphabet.Qphred, n)
	for i := 0; i < n; i++ {
		nl[i], _ = c.Complement(m.l[n-1-i])
		nq[i] = m.q[n-1-i]
	}
	m.l, m.q, m.strand = nl, nq, -m.strand
}

func (m *verifModel) reverse() {
	n := len(m.l)
	nl := make([]alphabet.Letter, n)
	nq := make([]alphabet.Qphred, n)
	for i := 0; i < n; i++ {
		nl[i] = m.l[n-1-i]
		nq[i] = m.q[n-1-i]
	}
	m.l, m.q, m.strand = nl, nq, seq.None
}

type verifStrander interface{ verifStrand() seq.Strand }

func (s *Seq) verifStrand() seq.Strand  { return s.Strand }
func (s *QSeq) verifStrand() seq.Strand { return s.Strand }

func verifC05Check(s seq.Sequence, m *verifModel, qual, strandMeaningful bool, tag string) {
	verifAssert(s.Len() == len(m.l) && s.Start() == m.start && s.End() == m.start+len(m.l), tag+"-coordinates")
	if s.Len() != len(m.l) {
		return
	}
	for i := range m.l {
		ql := s.At(m.start + i)
		verifAssert(ql.L == m.l[i], tag+"-letters")
		if qual {
			verifAssert(ql.Q == m.q[i], tag+"-qualities-travel-with-letters")
		}
	}
	if strandMeaningful {
		verifAssert(s.(verifStrander).verifStrand() == m.strand, tag+"-strand")
	}
}

// VerifC05_Linear drives a symbolic operation string against a positional reference model.
func VerifC05_Linear() {
	n, qual, nops := verifParam("n"), verifParam("qual") == 1, verifParam("ops")
	alpha := verifC05Alpha(verifParam("alphabet"))
	comp := alpha.(alphabet.Complementor)
	m := &verifModel{strand: seq.Strand(verifInt("strand", -1, 1)), start: verifInt("offset", -3, 3)}
	for i := 0; i < n; i++ {
		m.l = append(m.l, verifPaired("l"+string(rune('0'+i)), comp))
		m.q = append(m.q, alphabet.Qphred(verifByte("q"+string(rune('0'+i)), 0, 93)))
	}
	var s seq.Sequence
	if qual {
		ql := make([]alphabet.QLetter, n)
		for i := range ql {
			ql[i] = alphabet.QLetter{L: m.l[i], Q: m.q[i]}
		}
		qs := NewQSeq("s", ql, alpha, alphabet.Sanger)
		qs.Offset, qs.Strand = m.start, m.strand
		s = qs
	} else {
		ls := NewSeq("s", append([]alphabet.Letter(nil), m.l...), alpha)
		ls.Offset, ls.Strand = m.start, m.strand
		s = ls
	}
	verifC05Check(s, m, qual, true, "initial")

	// RevComp twice restores everything (letters, qualities, strand, coordinates)
	if verifParam("involution") == 1 {
		before := m.clone()
		s.RevComp()
		m.revcomp(comp)
		verifC05Check(s, m, qual, true, "revcomp")
		s.RevComp()
		verifC05Check(s, before, qual, true, "revcomp-twice-restores")
		m = before
		s.Reverse()
		s.Reverse()
		verifC05Check(s, before, qual, false, "reverse-twice-restores-letters")
		m.strand = seq.None
	}

	var other seq.Sequence
	var otherModel *verifModel
	for step := 0; step < nops; step++ {
		switch verifChoice("op"+string(rune('0'+step)), 5) {
		case 4: // append one letter to the current sequence (spare capacity must not be shared with a clone)
			nl := verifPaired("app"+string(rune('0'+step)), comp)
			nq := alphabet.Qphred(verifByte("appq"+string(rune('0'+step)), 0, 93))
			if qual {
				verifAssert(s.(*QSeq).AppendQLetters(alphabet.QLetter{L: nl, Q: nq}) == nil, "append-succeeds")
			} else {
				verifAssert(s.(*Seq).AppendLetters(nl) == nil, "append-succeeds")
				nq = seq.DefaultQphred
			}
			m.l, m.q = append(m.l, nl), append(m.q, nq)
		case 0:
			s.RevComp()
			m.revcomp(comp)
		case 1:
			s.Reverse()
			m.reverse()
		case 2: // clone; continue on the copy or on the original, the other one is kept aside
			c := s.Clone().(seq.Sequence)
			if verifChoice("which"+string(rune('0'+step)), 2) == 0 {
				other, otherModel = s, m.clone()
				s = c
			} else {
				other, otherModel = c, m.clone()
			}
		case 3:
			if n == 0 {
				continue
			}
			i := verifChoice("pos"+string(rune('0'+step)), n)
			nl := verifPaired("set"+string(rune('0'+step)), comp)
			nq := alphabet.Qphred(verifByte("setq"+string(rune('0'+step)), 0, 93))
			verifAssert(s.Set(m.start+i, alphabet.QLetter{L: nl, Q: nq}) == nil, "set-succeeds")
			m.l[i], m.q[i] = nl, nq
		}
		verifC05Check(s, m, qual, true, "after-op")
		if other != nil {
			verifC05Check(other, otherModel, qual, true, "clone-is-independent")
		}
	}
	if n > 0 {
		verifObserve("c05", n, len(m.l), int(s.At(m.start).L), int(m.strand))
	}
	verifReach("end")
}
