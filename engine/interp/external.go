// Copyright 2013 The Go Authors. All rights reserved.
// Use of this source code is governed by a BSD-style
// license that can be found in the LICENSE file.

package interp

// Emulated functions that we cannot interpret because they are
// external or because they use "unsafe" or "reflect" operations.

import (
	"bytes"
	"math"
	"os"
	"runtime"
	"sort"
	"strconv"
	"strings"
	"time"
	"unicode/utf8"
)

type externalFn func(fr *frame, args []value) value

// TODO(adonovan): fix: reflect.Value abstracts an lvalue or an
// rvalue; Set() causes mutations that can be observed via aliases.
// We have not captured that correctly here.

// Key strings are from Function.String().
var externals = make(map[string]externalFn)

func init() {
	// That little dot ۰ is an Arabic zero numeral (U+06F0), categories [Nd].
	for k, v := range map[string]externalFn{
		"(reflect.Value).Bool":         ext۰reflect۰Value۰Bool,
		"(reflect.Value).CanAddr":      ext۰reflect۰Value۰CanAddr,
		"(reflect.Value).CanSet":       ext۰reflect۰Value۰CanSet,
		"reflect.Indirect":             ext۰reflect۰Indirect,
		"(reflect.Value).CanInterface": ext۰reflect۰Value۰CanInterface,
		"(reflect.Value).Elem":         ext۰reflect۰Value۰Elem,
		"(reflect.Value).Field":        ext۰reflect۰Value۰Field,
		"(reflect.Value).Float":        ext۰reflect۰Value۰Float,
		"(reflect.Value).Index":        ext۰reflect۰Value۰Index,
		"(reflect.Value).Int":          ext۰reflect۰Value۰Int,
		"(reflect.Value).Interface":    ext۰reflect۰Value۰Interface,
		"(reflect.Value).IsNil":        ext۰reflect۰Value۰IsNil,
		"(reflect.Value).IsValid":      ext۰reflect۰Value۰IsValid,
		"(reflect.Value).Kind":         ext۰reflect۰Value۰Kind,
		"(reflect.Value).Len":          ext۰reflect۰Value۰Len,
		"(reflect.Value).MapIndex":     ext۰reflect۰Value۰MapIndex,
		"(reflect.Value).MapKeys":      ext۰reflect۰Value۰MapKeys,
		"(reflect.Value).NumField":     ext۰reflect۰Value۰NumField,
		"(reflect.Value).NumMethod":    ext۰reflect۰Value۰NumMethod,
		"(reflect.Value).Pointer":      ext۰reflect۰Value۰Pointer,
		"(reflect.Value).Set":          ext۰reflect۰Value۰Set,
		"(reflect.Value).String":       ext۰reflect۰Value۰String,
		"(reflect.Value).Type":         ext۰reflect۰Value۰Type,
		"(reflect.Value).Uint":         ext۰reflect۰Value۰Uint,
		"(reflect.error).Error":        ext۰reflect۰error۰Error,
		"(reflect.rtype).Bits":         ext۰reflect۰rtype۰Bits,
		"(reflect.rtype).Elem":         ext۰reflect۰rtype۰Elem,
		"(reflect.rtype).Field":        ext۰reflect۰rtype۰Field,
		"(reflect.rtype).In":           ext۰reflect۰rtype۰In,
		"(reflect.rtype).Kind":         ext۰reflect۰rtype۰Kind,
		"(reflect.rtype).NumField":     ext۰reflect۰rtype۰NumField,
		"(reflect.rtype).NumIn":        ext۰reflect۰rtype۰NumIn,
		"(reflect.rtype).NumMethod":    ext۰reflect۰rtype۰NumMethod,
		"(reflect.rtype).NumOut":       ext۰reflect۰rtype۰NumOut,
		"(reflect.rtype).Out":          ext۰reflect۰rtype۰Out,
		"(reflect.rtype).Size":         ext۰reflect۰rtype۰Size,
		"(reflect.rtype).String":       ext۰reflect۰rtype۰String,
		"math.Float32bits":             ext۰math۰Float32bits,
		"math.Float32frombits":         ext۰math۰Float32frombits,
		"math.Float64bits":             ext۰math۰Float64bits,
		"math.Float64frombits":         ext۰math۰Float64frombits,
		"os.Exit":                      ext۰os۰Exit,
		"os.Getenv":                    ext۰os۰Getenv,
		"reflect.New":                  ext۰reflect۰New,
		"reflect.SliceOf":              ext۰reflect۰SliceOf,
		"reflect.TypeOf":               ext۰reflect۰TypeOf,
		"internal/reflectlite.TypeOf":  ext۰reflect۰TypeOf,
		"reflect.ValueOf":              ext۰reflect۰ValueOf,
		"reflect.Zero":                 ext۰reflect۰Zero,
		"runtime.Breakpoint":           ext۰runtime۰Breakpoint,
		"runtime.GOROOT":               ext۰runtime۰GOROOT,
		"runtime.Goexit":               ext۰runtime۰Goexit,
		"strconv.FormatFloat":          ext۰strconv۰FormatFloat,
	} {
		externals[k] = v
	}
}

func ext۰bytes۰Equal(fr *frame, args []value) value {
	// func Equal(a, b []byte) bool
	a := args[0].([]value)
	b := args[1].([]value)
	if len(a) != len(b) {
		return false
	}
	for i := range a {
		if a[i] != b[i] {
			return false
		}
	}
	return true
}

func ext۰bytes۰IndexByte(fr *frame, args []value) value {
	// func IndexByte(s []byte, c byte) int
	s := args[0].([]value)
	c := args[1].(byte)
	for i, b := range s {
		if b.(byte) == c {
			return i
		}
	}
	return -1
}

func ext۰math۰Float64frombits(fr *frame, args []value) value {
	return math.Float64frombits(args[0].(uint64))
}

func ext۰math۰Float64bits(fr *frame, args []value) value {
	return math.Float64bits(args[0].(float64))
}

func ext۰math۰Float32frombits(fr *frame, args []value) value {
	return math.Float32frombits(args[0].(uint32))
}

func ext۰math۰Abs(fr *frame, args []value) value {
	return math.Abs(args[0].(float64))
}

func ext۰math۰Copysign(fr *frame, args []value) value {
	return math.Copysign(args[0].(float64), args[1].(float64))
}

func ext۰math۰Exp(fr *frame, args []value) value {
	return math.Exp(args[0].(float64))
}

func ext۰math۰Float32bits(fr *frame, args []value) value {
	return math.Float32bits(args[0].(float32))
}

func ext۰math۰Min(fr *frame, args []value) value {
	return math.Min(args[0].(float64), args[1].(float64))
}

func ext۰math۰NaN(fr *frame, args []value) value {
	return math.NaN()
}

func ext۰math۰IsNaN(fr *frame, args []value) value {
	return math.IsNaN(args[0].(float64))
}

func ext۰math۰Inf(fr *frame, args []value) value {
	return math.Inf(args[0].(int))
}

func ext۰math۰Ldexp(fr *frame, args []value) value {
	return math.Ldexp(args[0].(float64), args[1].(int))
}

func ext۰math۰Log(fr *frame, args []value) value {
	return math.Log(args[0].(float64))
}

func ext۰math۰Sqrt(fr *frame, args []value) value {
	return math.Sqrt(args[0].(float64))
}

func ext۰runtime۰Breakpoint(fr *frame, args []value) value {
	runtime.Breakpoint()
	return nil
}

func ext۰sort۰Ints(fr *frame, args []value) value {
	x := args[0].([]value)
	sort.Slice(x, func(i, j int) bool {
		return x[i].(int) < x[j].(int)
	})
	return nil
}
func ext۰sort۰Strings(fr *frame, args []value) value {
	x := args[0].([]value)
	sort.Slice(x, func(i, j int) bool {
		return x[i].(string) < x[j].(string)
	})
	return nil
}
func ext۰sort۰Float64s(fr *frame, args []value) value {
	x := args[0].([]value)
	sort.Slice(x, func(i, j int) bool {
		return x[i].(float64) < x[j].(float64)
	})
	return nil
}

func ext۰strconv۰Atoi(fr *frame, args []value) value {
	i, e := strconv.Atoi(args[0].(string))
	if e != nil {
		return tuple{i, iface{fr.i.runtimeErrorString, e.Error()}}
	}
	return tuple{i, iface{}}
}
func ext۰strconv۰Itoa(fr *frame, args []value) value {
	return strconv.Itoa(args[0].(int))
}
func ext۰strconv۰FormatFloat(fr *frame, args []value) value {
	return strconv.FormatFloat(args[0].(float64), args[1].(byte), args[2].(int), args[3].(int))
}

func ext۰strings۰Count(fr *frame, args []value) value {
	return strings.Count(args[0].(string), args[1].(string))
}

func ext۰strings۰EqualFold(fr *frame, args []value) value {
	return strings.EqualFold(args[0].(string), args[1].(string))
}
func ext۰strings۰IndexByte(fr *frame, args []value) value {
	return strings.IndexByte(args[0].(string), args[1].(byte))
}

func ext۰strings۰Index(fr *frame, args []value) value {
	return strings.Index(args[0].(string), args[1].(string))
}

func ext۰strings۰Replace(fr *frame, args []value) value {
	// func Replace(s, old, new string, n int) string
	s := args[0].(string)
	new := args[1].(string)
	old := args[2].(string)
	n := args[3].(int)
	return strings.Replace(s, old, new, n)
}

func ext۰strings۰ToLower(fr *frame, args []value) value {
	return strings.ToLower(args[0].(string))
}

func ext۰runtime۰GOMAXPROCS(fr *frame, args []value) value {
	// Ignore args[0]; don't let the interpreted program
	// set the interpreter's GOMAXPROCS!
	return runtime.GOMAXPROCS(0)
}

func ext۰runtime۰Goexit(fr *frame, args []value) value {
	// TODO(adonovan): don't kill the interpreter's main goroutine.
	runtime.Goexit()
	return nil
}

func ext۰runtime۰GOROOT(fr *frame, args []value) value {
	return runtime.GOROOT()
}

func ext۰runtime۰GC(fr *frame, args []value) value {
	runtime.GC()
	return nil
}

func ext۰runtime۰Gosched(fr *frame, args []value) value {
	runtime.Gosched()
	return nil
}

func ext۰runtime۰NumCPU(fr *frame, args []value) value {
	return runtime.NumCPU()
}

func ext۰time۰Sleep(fr *frame, args []value) value {
	time.Sleep(time.Duration(args[0].(int64)))
	return nil
}

func ext۰os۰Getenv(fr *frame, args []value) value {
	name := args[0].(string)
	switch name {
	case "GOSSAINTERP":
		return "1"
	}
	return os.Getenv(name)
}

func ext۰os۰Exit(fr *frame, args []value) value {
	panic(exitPanic(args[0].(int)))
}

func ext۰unicode۰utf8۰DecodeRuneInString(fr *frame, args []value) value {
	r, n := utf8.DecodeRuneInString(args[0].(string))
	return tuple{r, n}
}

// A fake function for turning an arbitrary value into a string.
// Handles only the cases needed by the tests.
// Uses same logic as 'print' built-in.
func ext۰fmt۰Sprint(fr *frame, args []value) value {
	buf := new(bytes.Buffer)
	wasStr := false
	for i, arg := range args[0].([]value) {
		x := arg.(iface).v
		_, isStr := x.(string)
		if i > 0 && !wasStr && !isStr {
			buf.WriteByte(' ')
		}
		wasStr = isStr
		buf.WriteString(toString(x))
	}
	return buf.String()
}
