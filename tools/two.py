import sys,json
sys.path.insert(0,'/verif')
import vcheck, checks
pid=sys.argv[1]
jobs=json.loads(sys.argv[2])
checks.CHECKS[pid]['jobs']=lambda t:jobs
rc=vcheck.run_check(pid,'quick')
d=json.load(open('/verif/out/gen/%s/result.json'%pid))
for j in d['jobs']:
    print(j['id'],j['params'],'paths',j['paths'],'done',j['paths_done'],'q',j['queries'],'solver',round(j['solver_s'],1),'wall',round(j['wall_s'],1),'obl',j['obligations'],'reg',j['regions'],j['region_aborts'],'depth',j['max_depth'], j['assert_checks'], j['undecided'])
print('rc',rc)
