package interp

// Happens-before data-race detection for the baton scheduler.
//
// Every goroutine carries a vector clock. Synchronisation operations transfer clocks the way
// the Go memory model orders them: go statement (parent -> child), channel send -> the receive
// of that value, receive -> a later send that needed the slot (and the completion of an
// unbuffered send), close -> a receive that observes it, Mutex/RWMutex unlock -> lock,
// WaitGroup Done -> Wait, Once.Do completion -> every Do, atomic store -> load. Where the
// model has to pick, it picks MORE ordering (a receive-release is acquired by every later
// send on that channel, not only by the send that re-used its slot; atomics order everything
// before them), so a reported race is a pair of accesses the Go memory model leaves
// unordered; races hidden by the extra edges are missed, not invented.
//
// Plain memory accesses (loads and stores through pointers, slice elements, struct fields,
// map operations on one map, append/copy) are checked against a shadow cell holding the last
// write epoch and the reads since. Scheduling points exist only at synchronisation
// operations; that is enough, because vector clocks expose unordered pairs even when the
// explored schedule happened to run them one after the other.

import (
	"fmt"
	"go/types"
)

type vclock []int32

func (a vclock) get(i int) int32 {
	if i < len(a) {
		return a[i]
	}
	return 0
}

func (a vclock) clone() vclock { return append(vclock(nil), a...) }

// join returns the pointwise maximum (a is updated in place where possible).
func (a vclock) join(b vclock) vclock {
	for len(a) < len(b) {
		a = append(a, 0)
	}
	for i, v := range b {
		if v > a[i] {
			a[i] = v
		}
	}
	return a
}

type access struct {
	g     int
	c     int32
	where string
}

type shadow struct {
	w     access
	hasW  bool
	reads []access
}

type raceState struct {
	cells map[*value]*shadow
	objs  map[interface{}]*shadow // maps (by *omap identity)
	on    bool
}

func (s *scheduler) raceInit() {
	s.race = &raceState{cells: map[*value]*shadow{}, objs: map[interface{}]*shadow{}}
	s.gs[0].vc = vclock{1}
}

// tick advances g's own component (after a release).
func (g *gstate) tick() {
	for len(g.vc) <= g.id {
		g.vc = append(g.vc, 0)
	}
	g.vc[g.id]++
}

func (g *gstate) now() int32 { return g.vc.get(g.id) }

// release publishes g's clock into *dst (joined) and advances g.
func (g *gstate) release(dst *vclock) {
	*dst = (*dst).join(g.vc)
	g.tick()
}

func (g *gstate) acquire(src vclock) {
	g.vc = g.vc.join(src)
}

func (fr *frame) raceWhere() string {
	if fr == nil || fr.fn == nil {
		return "?"
	}
	pos := ""
	if fr.i != nil && fr.curInstrPos().IsValid() {
		p := fr.i.prog.Fset.Position(fr.curInstrPos())
		pos = fmt.Sprintf(" (%s:%d)", shortFile(p.Filename), p.Line)
	}
	return fr.fn.String() + pos
}

func shortFile(f string) string {
	n := 0
	for i := len(f) - 1; i >= 0; i-- {
		if f[i] == '/' {
			n++
			if n == 2 {
				return f[i+1:]
			}
		}
	}
	return f
}

func (s *scheduler) raceActive() bool {
	return s != nil && s.race != nil && len(s.gs) > 1
}

func (s *scheduler) raceCheck(sh *shadow, write bool, fr *frame, what string) {
	g := s.cur
	report := func(prevKind string, prev access) {
		kind := "read"
		if write {
			kind = "write"
		}
		pe := pathEnd{kind: "race", msg: fmt.Sprintf("%s of %s by g%d (%s) at %s is concurrent with the %s by g%d at %s",
			kind, what, g.id, g.name, fr.raceWhere(), prevKind, prev.g, prev.where)}
		s.abortWith(pe)
	}
	if sh.hasW && sh.w.g != g.id && sh.w.c > g.vc.get(sh.w.g) {
		report("write", sh.w)
	}
	if write {
		for _, r := range sh.reads {
			if r.g != g.id && r.c > g.vc.get(r.g) {
				report("read", r)
			}
		}
		sh.w, sh.hasW = access{g.id, g.now(), fr.raceWhere()}, true
		sh.reads = sh.reads[:0]
		return
	}
	for k := range sh.reads {
		if sh.reads[k].g == g.id {
			sh.reads[k].c, sh.reads[k].where = g.now(), fr.raceWhere()
			return
		}
	}
	sh.reads = append(sh.reads, access{g.id, g.now(), fr.raceWhere()})
}

// abortWith ends the path with pe from whichever goroutine is running.
func (s *scheduler) abortWith(pe pathEnd) {
	if s.cur.id == 0 {
		panic(pe)
	}
	s.abortAny = pe
	s.cur.done = true
	s.cur = s.gs[0]
	s.gs[0].blocked = false
	s.gs[0].wake <- struct{}{}
	panic(goroutineKill{})
}

// raceCell records an access to one memory cell.
func (fr *frame) raceCell(p *value, write bool, what string) {
	s := fr.i.sched
	sh := s.race.cells[p]
	if sh == nil {
		sh = &shadow{}
		s.race.cells[p] = sh
	}
	s.raceCheck(sh, write, fr, what)
}

// raceAccess records an access of type T at addr, field by field (as load/store do).
func (fr *frame) raceAccess(T types.Type, addr *value, write bool) {
	if !fr.i.sched.raceActive() || addr == nil || fr.i.inInit {
		return
	}
	fr.raceWalk(T, addr, write, 0)
}

func (fr *frame) raceWalk(T types.Type, addr *value, write bool, depth int) {
	switch U := T.Underlying().(type) {
	case *types.Struct:
		if v, ok := (*addr).(structure); ok {
			if isSyncType(T) {
				return // sync.Mutex, WaitGroup, Once, atomic.*: their words are not plain memory
			}
			for i := range v {
				fr.raceWalk(U.Field(i).Type(), &v[i], write, depth+1)
			}
			return
		}
	case *types.Array:
		if v, ok := (*addr).(array); ok {
			for i := range v {
				fr.raceWalk(U.Elem(), &v[i], write, depth+1)
			}
			return
		}
	}
	fr.raceCell(addr, write, "a "+types.TypeString(T, func(p *types.Package) string { return p.Name() })+" variable")
}

func isSyncType(T types.Type) bool {
	n, ok := T.(*types.Named)
	if !ok || n.Obj().Pkg() == nil {
		return false
	}
	switch n.Obj().Pkg().Path() {
	case "sync", "sync/atomic":
		return true
	}
	return false
}

// raceObj records an access to an object treated as one location (a map).
func (fr *frame) raceObj(obj interface{}, write bool, what string) {
	s := fr.i.sched
	if !s.raceActive() || fr.i.inInit || obj == nil {
		return
	}
	sh := s.race.objs[obj]
	if sh == nil {
		sh = &shadow{}
		s.race.objs[obj] = sh
	}
	s.raceCheck(sh, write, fr, what)
}

// atomSync: an atomic operation on p both acquires and releases (over-approximation).
func (s *scheduler) atomSync(p *value) {
	vc := s.atomVC[p]
	s.cur.acquire(vc)
	s.cur.release(&vc)
	s.atomVC[p] = vc
}

// raceSlice records an access to every cell of a run of slice elements, descending into
// struct and array elements as load/store do.
func (fr *frame) raceSlice(cells []value, write bool, what string) {
	if !fr.i.sched.raceActive() || fr.i.inInit {
		return
	}
	for k := range cells {
		fr.raceValue(&cells[k], write, what)
	}
}

func (fr *frame) raceValue(p *value, write bool, what string) {
	switch v := (*p).(type) {
	case structure:
		for i := range v {
			fr.raceValue(&v[i], write, what)
		}
	case array:
		for i := range v {
			fr.raceValue(&v[i], write, what)
		}
	default:
		fr.raceCell(p, write, what)
	}
}

// ---------------------------------------------------------------------------------------
// sync.Cond

type icond struct {
	q  []*gstate
	vc vclock
}

func (s *scheduler) cond(p *value) *icond {
	if s.conds == nil {
		s.conds = map[*value]*icond{}
	}
	c := s.conds[p]
	if c == nil {
		c = &icond{}
		s.conds[p] = c
	}
	return c
}

// condLocker returns the Locker stored in a sync.Cond (field L).
func (fr *frame) condLocker(p *value) iface {
	st, ok := (*p).(structure)
	if !ok || len(st) < 2 {
		panic(unsupported("unexpected layout of sync.Cond"))
	}
	l, _ := st[1].(iface)
	if l.t == nil {
		panic(runtimeError("invalid memory address or nil pointer dereference (sync.Cond with nil L)"))
	}
	return l
}

func (fr *frame) lockerCall(l iface, name string) {
	m := fr.methodOf(l.t, name)
	if m == nil {
		panic(unsupported("sync.Cond: Locker without " + name))
	}
	call(fr.i, fr, 0, m, []value{l.v})
}

func init() {
	stdIntrinsicsExtra["sync.NewCond"] = func(fr *frame, args []value) value {
		cell := zero(fr.i.lookupType("sync", "Cond"))
		cell.(structure)[1] = args[0]
		return &cell
	}
	stdIntrinsicsExtra["(*sync.Cond).Wait"] = func(fr *frame, args []value) value {
		p := args[0].(*value)
		s := fr.i.sched
		if s == nil {
			panic(unsupported("sync.Cond.Wait without scheduler"))
		}
		l := fr.condLocker(p)
		c := s.cond(p)
		c.q = append(c.q, s.cur)
		fr.lockerCall(l, "Unlock")
		// Signal/Broadcast between the Unlock above and here must not be lost: the waiter is
		// already queued, and ready() before block() is honoured below
		g := s.cur
		if inQueue(c.q, g) {
			s.block(fr, "cond")
		}
		g.acquire(c.vc)
		fr.lockerCall(l, "Lock")
		return nil
	}
	stdIntrinsicsExtra["(*sync.Cond).Signal"] = func(fr *frame, args []value) value {
		s := fr.i.sched
		if s == nil {
			return nil
		}
		c := s.cond(args[0].(*value))
		if len(c.q) > 0 {
			k := 0
			if s.symbolic && len(c.q) > 1 {
				k = fr.chooseN(len(c.q))
			}
			g := c.q[k]
			c.q = append(c.q[:k:k], c.q[k+1:]...)
			s.cur.release(&c.vc)
			s.ready(g)
		}
		s.point(fr)
		return nil
	}
	stdIntrinsicsExtra["(*sync.Cond).Broadcast"] = func(fr *frame, args []value) value {
		s := fr.i.sched
		if s == nil {
			return nil
		}
		c := s.cond(args[0].(*value))
		if len(c.q) > 0 {
			s.cur.release(&c.vc)
			for _, g := range c.q {
				s.ready(g)
			}
			c.q = nil
		}
		s.point(fr)
		return nil
	}
}

func inQueue(q []*gstate, g *gstate) bool {
	for _, x := range q {
		if x == g {
			return true
		}
	}
	return false
}

// ---------------------------------------------------------------------------------------
// sync/atomic.Value (its real body juggles interface words through unsafe pointers)

func init() {
	field := func(fr *frame, p value) *value {
		pp, _ := p.(*value)
		if pp == nil {
			panic(runtimeError("invalid memory address or nil pointer dereference"))
		}
		st, ok := (*pp).(structure)
		if !ok || len(st) < 1 {
			panic(unsupported("unexpected layout of atomic.Value"))
		}
		if s := fr.i.sched; s != nil {
			s.point(fr)
			s.atomSync(pp)
		}
		return &st[0]
	}
	check := func(fr *frame, old, val value) iface {
		v, _ := val.(iface)
		if v.t == nil {
			panic(targetPanic{iface{t: types.Typ[types.String], v: "sync/atomic: store of nil value into Value"}})
		}
		if o, _ := old.(iface); o.t != nil && !types.Identical(o.t, v.t) {
			panic(targetPanic{iface{t: types.Typ[types.String], v: "sync/atomic: store of inconsistently typed value into Value"}})
		}
		return v
	}
	stdIntrinsicsExtra["(*sync/atomic.Value).Load"] = func(fr *frame, args []value) value {
		f := field(fr, args[0])
		if v, ok := (*f).(iface); ok {
			return v
		}
		return iface{}
	}
	stdIntrinsicsExtra["(*sync/atomic.Value).Store"] = func(fr *frame, args []value) value {
		f := field(fr, args[0])
		*f = check(fr, *f, args[1])
		return nil
	}
	stdIntrinsicsExtra["(*sync/atomic.Value).Swap"] = func(fr *frame, args []value) value {
		f := field(fr, args[0])
		old := *f
		*f = check(fr, old, args[1])
		if o, ok := old.(iface); ok {
			return o
		}
		return iface{}
	}
	stdIntrinsicsExtra["(*sync/atomic.Value).CompareAndSwap"] = func(fr *frame, args []value) value {
		f := field(fr, args[0])
		nv := check(fr, *f, args[2])
		cur, _ := (*f).(iface)
		want, _ := args[1].(iface)
		if cur.t == nil && want.t == nil || (cur.t != nil && want.t != nil && types.Identical(cur.t, want.t) && equals(cur.t, cur.v, want.v)) {
			*f = nv
			return true
		}
		return false
	}
}
